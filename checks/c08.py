"""C08 - every JWS the library produces decodes and verifies to what was signed (engine M).

The encoders are audited as the mirror image of the decoder obligations of C01: the bytes that are signed are
create_message(ASCII(protected segment placed in the token), payload as placed in the token), the protected segment and
the payload placed in the token are those very strings, the header gate ran, unencoded payloads of the compact form
satisfy the RFC 7797 character rules (kernels over every char).
"""
import re
import z3
from core import *
from execu import Exec, State, Refuse
from values import *
from audit import *
from loader import load
import models
import vc
from c18 import decode_template

CRATES = ['identity_jose']
REPLAY = {'scenario': 'jws_binding'}


def is_sub(t, want):
    return any(s == want for s in subterms(t))


def charset_m(ctx, prog):
    A = Auditor(ctx, prog)
    # ---- RFC 7797 5.2 character sets ------------------------------------------------------------------------------------------
    c = z3.BitVec('ch', 32)
    valid_char = z3.And(z3.ULE(c, 0x10FFFF), z3.Not(z3.And(z3.UGE(c, 0xD800), z3.ULE(c, 0xDFFF))))

    def rng(a, b):
        return z3.And(z3.UGE(c, a), z3.ULE(c, b))
    want = [z3.Or(rng(0x20, 0x2D), rng(0x2F, 0x7E)),
            z3.Or(rng(ord('a'), ord('z')), rng(ord('A'), ord('Z')), rng(ord('0'), ord('9')), c == ord('-'), c == ord('_'), c == ord('~'))]
    cls = sorted([g for g in prog.funcs if re.search(r'charset::<impl at [^>]*>::__validate::\{closure#\d\}$', g.name)], key=lambda g: g.name)
    if len(cls) != 2:
        # the shape this kernel reads (one closure per set over chars) is gone: the K harnesses decide the function as a whole
        ctx.outside.append('charset M kernel over every Unicode scalar value (closure shape not found; K harnesses on 1- and 2-byte strings decide)')
        return
    for g, w, nm in zip(cls, want, ('Default', 'UrlSafe')):
        ex = Exec(prog, models=models.MODELLED)
        st = State()
        st.pc.append(valid_char)
        outs = ex.run(g, [VAgg('closure', None, []), VInt(c, 32)], st)
        goals = [('CharSet::%s differs from RFC 7797 5.2' % nm, o.st.pc + [o.val.e != w]) for o in outs if o.kind == 'return' and isinstance(o.val, VBool)]
        if len(goals) != len(outs):
            raise Refuse('charset closure outcomes')
        v = vc.check_formulas(goals)
        st_ = HELD if v.status == 'unsat' else INCONCLUSIVE
        detail = ''
        rep = None
        if v.status == 'sat':
            ch = v.model[1].eval(c, model_completion=True).as_long()
            from replay import run_replay
            rep = {'scenario': 'jws_charset', 'cex': {'char': ch}}
            res = run_replay(rep)
            st_ = VIOLATED if res.get('reproduced') else INCONCLUSIVE
            detail = 'U+%04X; native: %s' % (ch, res.get('detail'))
        ctx.add(Ob('charset/%s=RFC7797-5.2' % nm, 'M', st_, detail=detail, replay=rep, solver_s=v.secs, queries=v.queries,
                   functions=sorted(ex.encoded), bounds='every Unicode scalar value'))

    f = prog.one(r'charset::<impl at [^>]*>::validate$')
    paths, ex = A.paths(f, inline=r'charset::<impl at [^>]*>::validate::\{closure')

    def r_cv(p):
        if p.kind != 'return':
            return 'panic ' + p.msg
        if not p.is_ok():
            return None
        u8 = [c_ for c_ in p.find_calls(r'from_utf8$') if p.took(c_, 'Ok') and mentions(c_.args, r'^data$')]
        dot = [c_ for c_ in p.find_calls(r'str>::contains$') if p.took(c_.ret, 'false')]
        val = [c_ for c_ in p.find_calls(r'__validate$') if p.took(c_.ret, 'true')]
        if not u8:
            return 'payload accepted without being valid UTF-8'
        if not dot or strip(dot[0].args[1]) != ('const', ord('.')):
            return 'payload accepted although it may contain "."'
        if not val or not is_sub(val[0].args[1], ('field', u8[0].ret, 0, 'Ok')):
            return 'payload accepted without the character-set check'
        return None if strip(p.term(p.payload())) == ('field', u8[0].ret, 0, 'Ok') else 'returned string is not the validated payload'
    if any(p.find_calls(r'__validate$') for p in paths):
        A.require('charset/validate=utf8-no-dot-charset', paths, r_cv, replay={'scenario': 'jws_charset'})



def run(ctx, prog):
    A = Auditor(ctx, prog)
    S = prog.structs

    # ---- MaybeEncodedPayload ------------------------------------------------------------------------------------------------------
    f = prog.one(r'utils::<impl at [^>]*>::encode_if_b64$')
    paths, ex = A.paths(f, inline=r'encode_if_b64::\{closure')

    def r_enc(p):
        if p.kind != 'return' or not isinstance(p.val, VAgg):
            return 'payload form undetermined'
        eb = [c_ for c_ in p.find_calls(r'(^|::)extract_b64$') if strip(c_.args[0]) == ('leaf', 'protected_header')]
        if not eb:
            return 'b64 of the protected header not consulted'
        if str(p.val.variant) == 'Encoded':
            t = strip(p.term(p.val.fields[0]))
            ok_ = p.took(eb[0].ret, 'true') and t[0] == 'app' and re.search(r'encode_b64$', t[1]) and strip(t[2][0]) == ('leaf', 'payload')
            return None if ok_ else 'payload encoded although b64=false (or not the payload)'
        ok_ = p.took(eb[0].ret, 'false') and strip(p.term(p.val.fields[0])) == ('leaf', 'payload')
        return None if ok_ else 'payload left unencoded although b64 is true'
    A.require('payload/base64url-iff-protected-b64-not-false', paths, r_enc, replay=REPLAY)

    f = prog.one(r'utils::<impl at [^>]*>::into_non_detached$')
    paths, ex = A.paths(f)

    def r_nd(p):
        if p.kind != 'return':
            return 'panic ' + p.msg
        if not p.is_ok():
            return None
        cow = p.payload()
        v = ('leaf', 'self')
        if str(cow.variant) == 'Owned':
            return None if field_path(strip(p.term(cow.fields[0]))) == ('self', [('Encoded', 0)]) else 'encoded payload replaced'
        vc_ = [c_ for c_ in p.calls if re.search(r'FnOnce<.*>>::call_once$', c_.name) and p.took(c_, 'Ok')]
        if not vc_ or field_path(strip(vc_[0].args[1][3][0] if vc_[0].args[1][0] == 'agg' else vc_[0].args[1])) != ('self', [('NotEncoded', 0)]):
            return 'unencoded payload placed in the token without the validator accepting it'
        return None if strip(p.term(cow.fields[0])) == ('field', vc_[0].ret, 0, 'Ok') else 'token payload is not the validated payload'
    A.require('payload/unencoded-payload-only-after-validation', paths, r_nd, replay=REPLAY)

    # ---- compact encoder -------------------------------------------------------------------------------------------------------------
    CE = S['CompactJwsEncoder']
    f = prog.one(r'encoder::<impl at [^>]*>::new_with_options$')
    paths, ex = A.paths(f, inline=r'new_with_options::\{closure')
    okp = [p for p in paths if p.kind == 'return' and p.is_ok()]

    def signing_input_ok(p, si_term, hdr_term, payload_pred):
        t = strip(si_term)
        if not (t[0] == 'app' and re.search(r'create_message$', t[1])):
            return 'signing input is not create_message(..)'
        a0, a1 = strip(t[2][0]), strip(t[2][1])
        if a0 != strip(hdr_term):
            return 'signing input does not start with the protected segment placed in the token'
        return None if payload_pred(t[2][1]) else 'signing input payload part is not the payload placed in the token'

    def r_ce(p):
        e = p.payload()
        ph = p.term(e.fields[CE.index('protected_header')])
        j = [c_ for c_ in p.find_calls(r'encode_b64_json$') if p.took(c_, 'Ok') and strip(c_.args[0]) == ('leaf', 'protected_header')]
        if not j or strip(ph) != ('field', j[0].ret, 0, 'Ok'):
            return 'protected segment is not encode_b64_json(header)'
        me = [c_ for c_ in p.find_calls(r'encode_if_b64$')]
        if not me or strip(me[0].args[0]) != ('leaf', 'payload') or not is_sub(me[0].args[1], ('leaf', 'protected_header')):
            return 'payload not prepared by encode_if_b64(payload, protected header)'
        r = signing_input_ok(p, p.term(e.fields[CE.index('signing_input')]), ph,
                             lambda t: bool(apps(t, r'MaybeEncodedPayload::as_bytes$')) and is_sub(t, me[0].ret))
        if r:
            return r
        pp = e.fields[CE.index('processed_payload')]
        if isinstance(pp, VAgg) and pp.variant == 'Some':
            t = p.term(pp.fields[0])
            nd = apps(t, r'into_non_detached$')
            if not nd or strip(nd[0][2][0]) != me[0].ret:
                return 'token payload is not the prepared payload'
            clo = [a for a in p.find_calls(r'into_non_detached$')[0].argvals if isinstance(a, VFn)]
            if not clo:
                return 'unencoded payloads not validated against the charset'
            body = prog.closures.get(clo[0].name, [])
            txt = ' '.join(str(b.term) for g in body for b in g.blocks.values() if b.term)
            if 'CharSet::validate' not in txt and 'validate' not in txt:
                return 'compact payload validator is not CharSet::validate'
        return None
    A.require('compact-encoder/signs-exactly-what-it-emits', okp, r_ce, replay=REPLAY)

    f = prog.one(r'encoder::<impl at [^>]*>::into_jws$', sig=r'CompactJwsEncoder')
    paths, ex = A.paths(f)

    def r_cj(p):
        if p.kind != 'return':
            return 'panic ' + p.msg
        an = p.find_calls(r'Arguments::new$')
        if len(an) != 1:
            return 'token not formatted once'
        tm = strip(an[0].args[0])
        pieces = decode_template(tm[1]) if tm[0] == 'const' else None
        args = list(strip(an[0].args[1])[3])
        sig = [a for a in args if apps(a, r'encode_b64$') and mentions(a, r'^signature$')]
        hdr = [a for a in args if any(field_path(s) == ('self', [('', CE.index('protected_header'))]) for s in subterms(a))]
        pay = [a for a in args if any((field_path(s) or (None, []))[0] == 'self' and (field_path(s)[1] or [(None, None)])[0][1] == CE.index('processed_payload') for s in subterms(a) if isinstance(s, tuple) and s and s[0] == 'field')]
        pp = ('field', ('leaf', 'self'), CE.index('processed_payload'), '')
        if p.took(pp, 'Some'):
            ok_ = pieces == [None, b'.', None, b'.', None] and len(args) == 3 and args[0] in hdr and args[1] in pay and args[2] in sig
            return None if ok_ else 'attached compact token is not protected.payload.base64url(signature)'
        ok_ = pieces == [None, b'..', None] and len(args) == 2 and args[0] in hdr and args[1] in sig
        return None if ok_ else 'detached compact token is not protected..base64url(signature)'
    A.require('compact-encoder/token=protected.payload.signature', paths, r_cj, replay=REPLAY)

    # ---- JSON encoders: SigningData ----------------------------------------------------------------------------------------------------
    SD = S['SigningData']
    f = prog.one(r'utils::<impl at [^>]*>::new$', sig=r'SigningData')
    paths, ex = A.paths(f)
    okp = [p for p in paths if p.kind == 'return' and p.is_ok()]

    def r_sd(p):
        d = p.payload()
        ph = d.fields[SD.index('protected_header')]
        t = strip(p.term(d.fields[SD.index('signing_input')]))
        if not (t[0] == 'app' and re.search(r'create_message$', t[1])):
            return 'signing input is not create_message(..)'
        if strip(t[2][1]) != ('leaf', 'processed_payload'):
            return 'signing input payload part is not the processed payload'
        a0 = strip(t[2][0])
        if isinstance(ph, VAgg) and ph.variant == 'Some':
            pht = strip(p.term(ph.fields[0]))
            if not (pht[0] == 'field' and pht[3] == 'Ok' and apps(pht, r'encode_b64_json$')):
                return 'protected segment is not encode_b64_json(header)'
            return None if (a0 == pht or is_sub(t[2][0], pht)) else 'signing input does not start with the protected segment placed in the token'
        return None if not mentions(a0, r'protected_header') else 'protected header signed but not emitted'
    A.require('json-encoders/signing-data-signs-the-emitted-protected-segment', okp, r_sd, replay=REPLAY)

    f = prog.one(r'utils::<impl at [^>]*>::into_signature$')
    paths, ex = A.paths(f)
    JS = S['JwsSignature']

    def r_is(p):
        if p.kind != 'return' or not isinstance(p.val, VAgg):
            return 'not field-wise'
        # two structs are called JwsSignature (encoder / decoder); field order header, protected, signature in both
        hdr, prot, sig = p.val.fields[JS.index('header')], p.val.fields[JS.index('protected')], p.val.fields[JS.index('signature')]
        if field_path(strip(p.term(prot))) != ('self', [('', SD.index('protected_header'))]):
            return 'emitted protected segment is not the signed one'
        if strip(p.term(hdr)) != ('leaf', 'unprotected_header'):
            return 'emitted unprotected header is not the recipient\'s'
        st_ = strip(p.term(sig))
        return None if (st_[0] == 'app' and re.search(r'encode_b64$', st_[1]) and strip(st_[2][0]) == ('leaf', 'signature')) else 'signature not base64url-encoded'
    A.require('json-encoders/signature-record-carries-signed-protected-segment', paths, r_is, replay=REPLAY)

    for enc, ret in (('flattened', 'FlattenedJwsEncoder'), ('general', 'GeneralJwsEncoder')):
        cands = [g for g in prog.find(r'encoder::<impl at [^>]*>::new$') if ret in g.ret_ty or (enc == 'general' and 'RecipientProcessingEncoder' in g.ret_ty)]
        if len(cands) != 1:
            raise Refuse('%s encoder constructor: %d candidates' % (enc, len(cands)))
        paths, ex = A.paths(cands[0], inline=r'encoder::<impl at [^>]*>::new::\{closure')
        okp = [p for p in paths if p.kind == 'return' and p.is_ok()]

        def r_je(p, enc=enc):
            rs = S['Recipient']
            prot = ('field', ('leaf', 'recipient' if enc == 'flattened' else 'first_recipient'), rs.index('protected'), '')
            me = [c_ for c_ in p.find_calls(r'encode_if_b64$')]
            if not me or strip(me[0].args[0]) != ('leaf', 'payload') or strip(me[0].args[1]) != prot:
                return 'payload not prepared by encode_if_b64(payload, protected header of the recipient)'
            sd = [c_ for c_ in p.find_calls(r'SigningData::new$') if p.took(c_, 'Ok')]
            if not sd or strip(sd[0].args[1]) != prot or not is_sub(sd[0].args[0], me[0].ret):
                return 'signing data not computed over (prepared payload, protected header)'
            return None
        A.require('%s-encoder/signs-the-prepared-payload-under-the-recipient-header' % enc, okp, r_je, replay=REPLAY)


def kani_part(ctx):
    import kanirun
    fn = ['CharSet::validate']
    names = ['c08_charset_default_2', 'c08_charset_urlsafe_2', 'c08_twin_must_fail']
    if ctx.tier == 'thorough':
        names += ['c08_charset_default_1', 'c08_charset_urlsafe_1']
    specs = [dict(harness=h, timeout_s=1200, functions=fn, must_fail=h.endswith('must_fail'),
                  bounds='every byte string of the length in the harness name (1, 2), both character sets') for h in names]
    res = kanirun.run_many(specs)
    kanirun.judge(ctx, specs, res, 'c08')


def main(ctx):
    prog, info = load(CRATES)
    ctx.extra['mir'] = info
    ctx.outside += ['serde_json text of the flattened/general envelopes (escaping of unencoded payloads - observed natively: payloads containing `"` '
                    'do not decode, see DESIGN.md)', 'JwkDocumentExt::create_jws (async state machine; not encoded; CoreDocument::verify_jws and resolve_method are)', 'real signatures', 'base64url codec']
    guarded(ctx, 'charset kernel', 'M', lambda: charset_m(ctx, prog))
    guarded(ctx, 'encoder audit', 'M', lambda: run(ctx, prog))
    if os.environ.get('VERIF_SKIP_K') != '1':
        guarded(ctx, 'charset on short byte strings', 'K', lambda: kani_part(ctx))
    # the parts of the statement that other properties' audits decide are re-used here, restricted to the obligations C08 names:
    # recipients of one general token agree on b64 (else a recipient's entry does not decode to the signed payload), and
    # verification selects the method by kid / nonce / scope inside the scope's own relationship set
    import c11
    import c03
    import c04
    guarded(ctx, 'general encoder recipients', 'M', lambda: c11.run(ctx, prog, only=r'^general-encoder/'))
    import c01
    guarded(ctx, 'item accessors (nonce, kid, alg)', 'M', lambda: c01.run(ctx, prog, only=r'^JwsValidationItem::'))

    def verification_side():
        prog2, info2 = load(c03.CRATES, src_only=c03.SRC)
        c03.run(ctx, prog2, only=r'^verify_jws/')
        c04.run(ctx, prog2, only=r'^resolve_method/|^resolve_method_ref/')
    guarded(ctx, 'verification side', 'M', verification_side)
