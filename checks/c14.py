"""C14 - IOTA state-metadata packing: framing (M, byte-precise), flag writer (M audit), rebasing closures (M audit)."""
import re
import z3
from core import *
from execu import strip_generics, Exec, State, Refuse
from values import *
from audit import *
from loader import load
import vc

CRATES = ['identity_iota_core']
REPLAY = {'scenario': 'state_metadata'}


def run(ctx, prog):
    A = Auditor(ctx, prog)
    ver = prog.enums['StateMetadataVersion']['V1']
    enc = prog.enums['StateMetadataEncoding']['Json']

    # ---------------------------------------------------------------------------------------------------------- unpack
    f = prog.one(r'state_metadata::document::<impl at [^>]*>::unpack$')
    st = State()
    arr = z3.Array('data', z3.BitVecSort(64), z3.BitVecSort(8))
    n = z3.BitVec('n', 64)
    st.mem['data'] = VBytes(arr, z3.BitVecVal(0, 64), n)
    paths, ex = A.paths(f, args=[VRef('data')], state=st, inline=r'.')
    ctx.bounds.append('unpack: byte strings of every length (64-bit length, SMT array contents)')

    def B(i):
        return z3.Select(arr, z3.BitVecVal(i, 64))
    L = z3.ZeroExt(48, z3.Concat(B(6), B(5)))
    framed = z3.And(z3.UGE(n, 7), B(0) == ord('D'), B(1) == ord('I'), B(2) == ord('D'), B(3) == ver, B(4) == enc,
                    z3.UGE(n, 7 + L))

    def r_unpack(p):
        if p.kind != 'return':
            return 'panic reachable: ' + p.msg
        parses = p.find_calls(r'from_json_slice$')
        if parses:
            if len(parses) != 1:
                return 'body parsed more than once'
            a = parses[0].argvals[0]
            b = p.st.mem.get(a.cell) if isinstance(a, VRef) else None
            if not isinstance(b, VBytes):
                return 'parser not given a slice of the input'
            if not p.implies(framed):
                return 'body handed to the parser although marker/version/encoding/length prefix are not all valid'
            same = z3.And(b.off == 7, b.len == L, z3.Select(b.arr, b.off + z3.BitVec('j', 64)) == z3.Select(arr, 7 + z3.BitVec('j', 64)))
            if not p.implies(same):
                return 'parser not given exactly bytes[7 .. 7+len] (trailing bytes must be ignored, nothing else)'
            t = strip(p.term())
            if p.is_ok():
                return None if p.took(parses[0], 'Ok') and strip(p.term(p.payload())) == ('field', parses[0].ret, 0, 'Ok') \
                    else 'returned document is not the parser\'s result'
            return None if p.took(parses[0], 'Err') else 'parser success turned into an error'
        if p.is_ok():
            return 'accepted without parsing a body'
        if p.consistent(framed):
            return 'well-framed input rejected before parsing'
        return None
    A.require('unpack/framing-marker-version-encoding-length', paths, r_unpack, replay=REPLAY)

    # ------------------------------------------------------------------------------------------------ add_flags_to_message
    f = prog.one(r'(^|::)add_flags_to_message$')
    paths, ex = A.paths(f, inline=r'closure')

    def r_flags(p):
        if p.kind != 'return':
            return 'panic reachable: ' + p.msg
        lens = p.find_calls(r'Vec<u8>::len$|Vec::<u8>::len$|::len$')
        lens = [c for c in lens if mentions(c.args, r'^data$')]
        if not lens:
            return 'length of the data never read'
        ln = ex.sym_int(lens[0].ret, 64).e
        if p.is_err():
            return None if p.implies(z3.UGT(ln, 65535)) else 'data that fits in 16 bits rejected'
        if not p.implies(z3.ULE(ln, 65535)):
            return 'data longer than 65535 bytes accepted (length prefix would wrap)'
        seq = [c for c in p.calls if re.search(r'(extend_from_slice|::push|::append)$', c.name)]
        if [re.search(r'(extend_from_slice|push|append)$', c.name).group(1) for c in seq] != \
                ['extend_from_slice', 'push', 'push', 'extend_from_slice', 'append']:
            return 'header not written as marker, version, encoding, length, data'
        mk = strip(seq[0].args[1])
        if mk != ('const', b'DID'):
            return 'marker bytes are %s' % term_str(mk)
        vterm, eterm = seq[1].argvals[1], seq[2].argvals[1]
        for nm, v, leaf, only in (('version', vterm, 'version', ver), ('encoding', eterm, 'encoding', enc)):
            # single-variant enums are zero-sized: rustc folds `x as u8` to the discriminant constant
            if not (isinstance(v, VInt) and (leaf in str(v.e) or ex.concrete(v.e) == only)):
                return '%s byte does not come from the %s argument' % (nm, leaf)
        lb = seq[3].argvals[1]
        lbv = p.st.mem.get(lb.cell) if isinstance(lb, VRef) else None
        if isinstance(lbv, VBytes) and ex.concrete(lbv.len) == 2:
            b0, b1 = z3.Select(lbv.arr, lbv.off), z3.Select(lbv.arr, lbv.off + 1)
        elif isinstance(lbv, VAgg) and len(lbv.fields) == 2:
            b0, b1 = lbv.fields[0].e, lbv.fields[1].e
        else:
            return 'length prefix is not a 2-byte array'
        want0, want1 = z3.Extract(7, 0, ln), z3.Extract(15, 8, ln)
        if not p.implies(z3.And(b0 == want0, b1 == want1)):
            return 'length prefix is not the little-endian 16-bit data length'
        if not mentions(seq[4].args[1], r'^data$'):
            return 'data not appended after the header'
        return None
    A.require('add_flags_to_message/header-bytes-and-16-bit-length-gate', paths, r_flags, replay=REPLAY)

    # discriminant values written by `version as u8` / `encoding as u8` vs. accepted by unpack: by construction of the
    # enum tables read from source (V1 = %d, Json = %d) and the unpack obligation above.

    # ----------------------------------------------------------------------------------------------------- rebasing closures
    into = prog.one(r'state_metadata::document::<impl at [^>]*>::into_iota_document$')
    cls = sorted([g for g in prog.funcs if re.search(r'::into_iota_document::\{closure#\d+\}$', g.name)], key=lambda g: g.name)
    frm = [g for g in prog.funcs if re.search(r'state_metadata::document::<impl at [^>]*>::from::\{closure#0\}$', g.name)]
    if len(cls) != 2 or len(frm) != 1:
        raise Refuse('expected 2 unpack closures and 1 pack closure, found %d / %d' % (len(cls), len(frm)))

    def closure_audit(g, checked):
        paths, ex = A.paths(g, inline=r'into_iota_document::\{closure#\d+\}::')

        def r(p):
            if p.kind != 'return':
                return 'panic reachable: ' + p.msg
            eqs = [c for c in p.find_calls(r'PartialEq.*>::(eq|ne)$') if mentions(c.args, r'^did$')]
            if len(eqs) != 1 or not mentions(eqs[0].args, r'PLACEHOLDER_DID|placeholder'):
                if len(eqs) != 1 or not apps(('x', tuple(eqs[0].args)), r'Lazy.*deref$|PLACEHOLDER|as_ref$'):
                    return 'identifier not compared with the placeholder'
            is_ph = p.took(eqs[0].ret, 'true' if eqs[0].name.endswith('::eq') else 'false')
            not_ph = p.took(eqs[0].ret, 'false' if eqs[0].name.endswith('::eq') else 'true')
            if is_ph:
                if not p.is_ok() or not mentions(p.term(p.payload()), r'original_did|arg1'):
                    return 'placeholder not replaced by the target DID'
                if mentions(p.term(p.payload()), r'^did$'):
                    return 'placeholder replaced by something derived from the placeholder'
                return None
            if not not_ph:
                return 'undetermined comparison'
            chk = [c for c in p.find_calls(r'IotaDID::check_validity$') if mentions(c.args, r'^did$')]
            if checked:
                if not chk:
                    return 'foreign id/controller accepted without IOTA DID validity check'
                if p.is_ok():
                    if not p.took(chk[0], 'Ok'):
                        return 'invalid id/controller accepted'
                elif not p.took(chk[0], 'Err'):
                    return 'valid id/controller rejected'
                else:
                    return None
            if not p.is_ok():
                return 'foreign DID rejected'
            return None if strip(p.term(p.payload())) == ('leaf', 'did') else 'foreign DID not returned unchanged'
        return paths, r
    # which closure checks validity is decided by reading their bodies: the one that calls check_validity
    kinds = {}
    for g in cls:
        has_check = any(b.term and b.term[0] == 'call' and 'check_validity' in str(b.term[2]) for b in g.blocks.values())
        kinds[g.name] = has_check
        paths, r = closure_audit(g, has_check)
        A.require('into_iota_document/%s-closure-rewrites-only-the-placeholder' % ('checking' if has_check else 'plain'),
                  paths, r, replay=REPLAY)
    if sorted(kinds.values()) != [False, True]:
        raise Refuse('expected one checking and one plain closure')
    checking = [k for k, v in kinds.items() if v][0]
    plain = [k for k, v in kinds.items() if not v][0]

    paths, ex = A.paths(into)

    def r_wiring(p):
        if p.kind != 'return' or not p.is_ok():
            return None
        tm = p.find_calls(r'CoreDocument::try_map$')
        if len(tm) != 1 or not p.took(tm[0], 'Ok'):
            return 'document not rebuilt through try_map'
        a = tm[0].argvals
        names = [x.name if isinstance(x, VFn) else None for x in a[1:5]]
        ck = re.search(r'\{closure@[^}]*\}', [g for g in cls if g.name == checking][0].args[0][1]).group(0)
        pl = re.search(r'\{closure@[^}]*\}', [g for g in cls if g.name == plain][0].args[0][1]).group(0)
        if names != [ck, ck, pl, pl]:
            return 'try_map not wired as (id: checking, controller: checking, methods: plain, services: plain)'
        si = prog.structs['StateMetadataDocument']
        if strip(tm[0].args[0]) != ('field', ('leaf', 'self'), si.index('document'), ''):
            return 'try_map not applied to the packed document'
        out = p.payload()
        di = prog.structs['IotaDocument']
        if strip(p.term(out.fields[di.index('document')])) != ('field', tm[0].ret, 0, 'Ok'):
            return 'result document is not the rebased document'
        if strip(p.term(out.fields[di.index('metadata')])) != ('field', ('leaf', 'self'), si.index('metadata'), ''):
            return 'metadata not carried over'
        return None
    A.require('into_iota_document/try_map-wiring', paths, r_wiring, replay=REPLAY)

    paths, ex = A.paths(frm[0])

    def r_pack_closure(p):
        if p.kind != 'return':
            return 'panic reachable: ' + p.msg
        eqs = [c for c in p.find_calls(r'PartialEq.*>::(eq|ne)$') if mentions(c.args, r'^did$')]
        if len(eqs) != 1:
            return 'identifier not compared with the document id'
        # the comparison is between whole DIDs (value or full text), not between parts of them
        parts = [a_[1] for arg in eqs[0].args for a_ in apps(arg, r'.') if not re.search(
            r'AsRef<.*>>::as_ref$|Deref>::deref$|Borrow<.*>>::borrow$|Clone>::clone$|::as_str$|ToString>::to_string$|Into<.*>>::into$|From<.*>>::from$', a_[1])]
        if parts:
            return 'self-reference test compares parts of the identifiers (%s), not the identifiers' % parts[0].split('::')[-1]
        same = p.took(eqs[0].ret, 'true' if eqs[0].name.endswith('::eq') else 'false')
        t = p.term()
        if same:
            return None if (mentions(t, r'PLACEHOLDER') or apps(t, r'PLACEHOLDER|Lazy')) and not mentions(t, r'^did$') \
                else 'self reference not replaced by the placeholder'
        return None if strip(t) == ('leaf', 'did') else 'foreign DID altered while packing'
    A.require('pack/closure-replaces-only-self-references', paths, r_pack_closure, replay=REPLAY)

    # pack serialises the document it was given with exactly two members cleared - the ledger address fields - and nothing else
    # touched (no member filled in, defaulted or dropped on the way)
    f_pk = prog.one(r'state_metadata::document::<impl at [^>]*>::pack$', sig=r'StateMetadataDocument,')
    pk_paths, pk_ex = A.paths(f_pk)
    MD = prog.structs['IotaDocumentMetadata']
    SMD = prog.structs['StateMetadataDocument']
    cleared = {MD.index('governor_address'), MD.index('state_controller_address')}

    def r_pk(p):
        if p.kind != 'return':
            return 'panic ' + p.msg
        js = [c for c in p.calls if re.search(r'ToJson>::to_json_vec$|to_json_vec$|to_json$', c.name)]
        if len(js) != 1:
            return 'the document is not serialised exactly once'
        overs = [s_ for s_ in subterms(js[0].args[0]) if isinstance(s_, tuple) and s_ and s_[0] == 'over']
        for o in overs:
            base = strip(o[1])
            is_meta = isinstance(base, tuple) and base[0] == 'field' and strip(base[1]) == ('leaf', 'self') and base[2] == SMD.index('metadata')
            for (key, val) in o[2]:
                idx = key[1] if isinstance(key, tuple) else key
                if strip(o[1]) == ('leaf', 'self'):
                    if idx != SMD.index('metadata'):
                        return 'pack rewrites the %s of the document it serialises' % SMD[idx]
                    continue
                if not is_meta:
                    return 'pack rewrites something besides the metadata'
                if idx not in cleared:
                    return 'pack changes metadata.%s (only the two ledger address fields are cleared)' % MD[idx]
                v = strip(val)
                if not (isinstance(v, tuple) and v[0] == 'agg' and str(v[2]) == 'None'):
                    return 'metadata.%s is not cleared but set to something' % MD[idx]
        return None
    A.require('pack/serialises-the-document-with-only-the-ledger-addresses-cleared', pk_paths, r_pk, replay={'scenario': 'state_metadata', 'cex': {'only': '[metadata]'}})


PACKED = (('IotaDocumentMetadata', r'iota_document_metadata::_::<impl at [^>]*>::serialize$'),
          ('StateMetadataDocument', r'state_metadata::document::_::<impl at [^>]*>::serialize$'))


def serde_skips(ctx, prog, items=PACKED, replay=None):
    """derived Serialize of the given structures: a member is left out only when it is absent / empty (skip_serializing_if =
    Option::is_none / is_empty on that member), never because of its value - otherwise Some(default) does not survive the text form"""
    A = Auditor(ctx, prog)
    RB = replay or {'scenario': 'state_metadata', 'cex': {'only': '[metadata]'}}
    for label, rx in items:
        fs = prog.find(rx)
        if len(fs) != 1:
            raise Refuse('derived Serialize of %s: %d candidates' % (label, len(fs)))
        try:
            # (more than ~10 optional members: 2^n paths - go to the call-site form directly)
            if sum(1 for b in fs[0].blocks.values() if b.term and b.term[0] == 'call' and b.term[2][0] == 'fnitem' and
                   re.search(r'::is_none$|::is_empty$', strip_generics(b.term[2][1]))) > 10:
                raise Refuse('path budget (predicted)')
            paths, ex = A.paths(fs[0], max_depth=2)
        except Refuse as e:
            if 'path budget' not in str(e):
                raise
            # too many optional members for path enumeration (2^n): decide it on the call sites instead - every callee of the derived
            # body whose result is a bool is a skip predicate, and each has to be Option::is_none / is_empty on a member of self
            bad = []
            n = 0
            for b in fs[0].blocks.values():
                t = b.term
                if not (t and t[0] == 'call'):
                    continue
                _, dest, callee, argops, ret = t
                cname = callee[1] if callee[0] == 'fnitem' else 'indirect'
                dty = fs[0].locals.get(dest[1] if isinstance(dest, tuple) and len(dest) > 1 and isinstance(dest[1], int) else -1, '') if dest else ''
                if dty != 'bool':
                    continue
                n += 1
                if not re.search(r'Option(<.*>)?::is_none$|::is_empty$', strip_generics(cname)):
                    bad.append(cname)
            from replay import run_replay
            nm = '%s::serialize/members-skipped-only-when-absent-or-empty' % label
            if n == 0:
                ctx.add(Ob(nm, 'M', INCONCLUSIVE, detail='no skip predicate recognised in the derived body'))
            elif not bad:
                ctx.add(Ob(nm, 'M', HELD, queries=n, sample='%s: %d skip predicates, all is_none / is_empty (call-site form: path enumeration exceeds the budget)' % (label, n)))
            else:
                res = run_replay(RB)
                ctx.add(Ob(nm, 'M', VIOLATED if res.get('reproduced') else INCONCLUSIVE,
                           detail='member skipped by %s, not by absence / emptiness; native: %s' % (bad[0].split('::')[-1], res.get('detail', '')[:300]), replay=RB))
            continue

        def r_skip(p, label=label):
            if p.kind != 'return':
                return None
            for c in p.calls:
                if c.inlined or c.ret is None:
                    continue
                decided = p.took(c.ret, 'true') or p.took(c.ret, 'false')
                if not decided:
                    continue
                if re.search(r'Option(<.*>)?::is_none$|::is_empty$', c.name) and mentions(c.args, r'^self$'):
                    continue
                if re.search(r'Serialize|serialize|Serializer', c.name):
                    continue
                return 'member skipped by %s, not by absence / emptiness' % c.name.split('::')[-1]
            return None
        A.require('%s::serialize/members-skipped-only-when-absent-or-empty' % label, paths, r_skip, replay=RB)


def maps(ctx):
    """The rewriting primitives under pack / into_iota_document: DIDUrl / VerificationMethod / MethodRef / Service ::map and
    ::try_map apply the caller's function to every DID component (id *and* controller) and pass every other field through;
    CoreDocumentData::try_map feeds each of its ten fields through the right one."""
    prog, info = load(['identity_did', 'identity_verification', 'identity_document'], src_only=['identity_core'])
    ctx.extra['mir_maps'] = info
    A = Auditor(ctx, prog)
    S = prog.structs
    RB = {'scenario': 'state_metadata', 'cex': {'only': '[rebase]'}}

    def fcall(t, arg_pred):
        """t (stripped of .Ok.0) is an application of the caller-supplied function to a value satisfying arg_pred"""
        t = strip(t)
        if isinstance(t, tuple) and t and t[0] == 'field' and t[3] == 'Ok':
            t = strip(t[1])
        if not (isinstance(t, tuple) and t and t[0] == 'app' and re.search(r'as Fn(Once|Mut)?<\(.*CoreDID,\)>>::call(_once|_mut)?$', t[1])):
            return False
        return any(arg_pred(strip(x)) for a in t[2] for x in subterms(a))

    def app_of(t, rx, arg):
        t = strip(t)
        if isinstance(t, tuple) and t and t[0] == 'field' and t[3] == 'Ok':
            t = strip(t[1])
        return isinstance(t, tuple) and t and t[0] == 'app' and re.search(rx, t[1]) and strip(t[2][0]) == arg

    def self_f(i):
        return ('field', ('leaf', 'self'), i, '')

    def result_struct(p, fallible):
        v = p.val
        if fallible:
            if not (isinstance(v, VAgg) and v.variant == 'Ok'):
                return None
            v = v.fields[0]
        return v if isinstance(v, VAgg) else None

    # DIDUrl
    DU = S['DIDUrl']
    for nm, fallible in (('map', False), ('try_map', True)):
        f = prog.one(r'did_url::<impl at [^>]*>::%s$' % nm, sig=r'^(\w+::)*DIDUrl')
        paths, ex = A.paths(f)

        def r_du(p, fallible=fallible):
            if p.kind != 'return':
                return 'panic ' + p.msg
            v = result_struct(p, fallible)
            if v is None:
                return None
            did, url = p.term(v.fields[DU.index('did')]), strip(p.term(v.fields[DU.index('url')]))
            if not fcall(did, lambda x: x == self_f(DU.index('did'))):
                return 'DID part is not f(self.did)'
            return None if url == self_f(DU.index('url')) else 'relative part altered'
        A.require('DIDUrl::%s/did-mapped-url-untouched' % nm, paths, r_du, replay=RB)

    # VerificationMethod
    VM = S['VerificationMethod']
    for nm, fallible in (('map', False), ('try_map', True)):
        f = prog.one(r'(^|::)method::<impl at [^>]*method.rs[^>]*>::%s$' % nm)
        paths, ex = A.paths(f)

        def r_vm(p, nm=nm, fallible=fallible):
            if p.kind != 'return':
                return 'panic ' + p.msg
            v = result_struct(p, fallible)
            if v is None:
                return None
            if not app_of(p.term(v.fields[VM.index('id')]), r'DIDUrl::%s$' % nm, self_f(VM.index('id'))):
                return 'method id is not self.id.%s(f)' % nm
            if not fcall(p.term(v.fields[VM.index('controller')]), lambda x: x == self_f(VM.index('controller'))):
                return 'controller is not f(self.controller)'
            for fld in VM:
                if fld not in ('id', 'controller') and strip(p.term(v.fields[VM.index(fld)])) != self_f(VM.index(fld)):
                    return 'field %s altered' % fld
            return None
        A.require('VerificationMethod::%s/id-and-controller-mapped-rest-untouched' % nm, paths, r_vm, replay=RB)

    # MethodRef
    for nm, fallible in (('map', False), ('try_map', True)):
        f = prog.one(r'method_ref::<impl at [^>]*>::%s$' % nm)
        paths, ex = A.paths(f)

        def r_mr(p, nm=nm, fallible=fallible):
            if p.kind != 'return':
                return 'panic ' + p.msg
            v = result_struct(p, fallible)
            if v is None:
                return None
            d = ex.discr_var(('leaf', 'self'))
            src = None
            for vn, vi in prog.enums['MethodRef'].items():
                if p.implies(d == z3.BitVecVal(vi, 64)):
                    src = vn
            if src is None or str(v.variant) != src:
                return 'variant changes from %s to %s' % (src, v.variant)
            inner = ('field', ('leaf', 'self'), 0, src)
            callee = r'VerificationMethod::%s$' % nm if src == 'Embed' else r'DIDUrl::%s$' % nm
            return None if app_of(p.term(v.fields[0]), callee, inner) else '%s payload is not payload.%s(f)' % (src, nm)
        A.require('MethodRef::%s/variant-kept-payload-mapped' % nm, paths, r_mr, replay=RB)

    # Service
    SV = S['Service']
    for nm, fallible in (('map', False), ('try_map', True)):
        f = prog.one(r'service::service::<impl at [^>]*>::%s$|service::<impl at [^>]*>::%s$' % (nm, nm), sig=r'^(\w+::)*Service')
        paths, ex = A.paths(f)

        def r_sv(p, nm=nm, fallible=fallible):
            if p.kind != 'return':
                return 'panic ' + p.msg
            v = result_struct(p, fallible)
            if v is None:
                return None
            if not app_of(p.term(v.fields[SV.index('id')]), r'DIDUrl::%s$' % nm, self_f(SV.index('id'))):
                return 'service id is not self.id.%s(f)' % nm
            for fld in SV:
                if fld != 'id' and strip(p.term(v.fields[SV.index(fld)])) != self_f(SV.index(fld)):
                    return 'field %s altered' % fld
            return None
        A.require('Service::%s/id-mapped-rest-untouched' % nm, paths, r_sv, replay=RB)

    # CoreDocumentData::try_map
    CD = S['CoreDocumentData']
    f = prog.one(r'core_document::<impl at [^>]*>::try_map$', sig=r'^(\w+::)*CoreDocumentData')
    paths, ex = A.paths(f)
    via = {'verification_method': ('method_map', r'VerificationMethod::try_map$'), 'service': ('services_map', r'Service::try_map$')}
    for r_ in ('authentication', 'assertion_method', 'key_agreement', 'capability_delegation', 'capability_invocation'):
        via[r_] = ('method_map', r'MethodRef::try_map$')

    def closure_calls(cname, rx):
        cands = prog.closures.get(cname) or []
        if len(cands) != 1:
            return False
        body = ' '.join(str(b.term) for b in cands[0].blocks.values() if b.term)
        return bool(re.search(rx.rstrip('$'), body))

    def r_cd(p):
        if p.kind != 'return':
            return 'panic ' + p.msg
        v = result_struct(p, True)
        if v is None:
            return None
        if not fcall(p.term(v.fields[CD.index('id')]), lambda x: x == self_f(CD.index('id'))):
            return 'document id is not id_map(self.id)'
        c = v.fields[CD.index('controller')]
        if isinstance(c, VAgg) and c.variant == 'Some':
            ct = strip(p.term(c.fields[0]))
            if not (apps(ct, r'OneOrSet::try_map$') and mentions(ct, r'^controller_map$') and mentions(ct, r'^self$')):
                return 'controllers not mapped with controller_map'
        for fld in ('also_known_as', 'properties'):
            if strip(p.term(v.fields[CD.index(fld)])) != self_f(CD.index(fld)):
                return 'field %s altered' % fld
        for fld, (mp, callee) in via.items():
            t = p.term(v.fields[CD.index(fld)])
            ii = [a for a in apps(t, r'IntoIterator>::into_iter$') if strip(a[2][0]) == self_f(CD.index(fld))]
            cl = [x for x in subterms(t) if isinstance(x, tuple) and x and x[0] == 'fn' and str(x[1]).startswith('{closure@')]
            if not ii or len(cl) != 1:
                return 'field %s is not rebuilt from its own entries' % fld
            if not mentions(cl[0], '^%s$' % mp):
                return 'entries of %s mapped with the wrong function (want %s)' % (fld, mp)
            if not closure_calls(cl[0][1], callee):
                return 'entries of %s not passed through %s' % (fld, callee)
        return None
    A.require('CoreDocumentData::try_map/each-field-through-its-own-map', paths, r_cd, replay=RB)

    # CoreDocument::try_map / map_unchecked hand their four functions to the data's try_map in the same roles
    ORDER = ['id_update', 'controller_update', 'methods_update', 'service_update']
    f = prog.one(r'core_document::<impl at [^>]*>::try_map$', sig=r'^CoreDocument,')
    paths, ex = A.paths(f)

    def r_fw(p):
        if p.kind != 'return':
            return 'panic ' + p.msg
        tm = [c for c in p.calls if re.search(r'CoreDocumentData::try_map$', c.name)]
        if len(tm) != 1 or not mentions(tm[0].args[0], r'^self$'):
            return 'the data of this document is not mapped exactly once'
        got = [strip(a) for a in tm[0].args[1:5]]
        if got != [('leaf', n) for n in ORDER]:
            return 'update functions forwarded in other roles: %s' % [term_str(g) for g in got]
        if p.is_ok():
            cv = [c for c in p.calls if re.search(r'<CoreDocument as TryFrom<CoreDocumentData>>::try_from$', c.name) and p.took(c, 'Ok')]
            if not cv or strip(cv[0].args[0]) != ('field', tm[0].ret, 0, 'Ok') or strip(p.term(p.payload())) != ('field', cv[0].ret, 0, 'Ok'):
                return 'the mapped data does not come back through the checked constructor'
        return None
    A.require('CoreDocument::try_map/forwards-the-four-functions-in-their-roles', paths, r_fw, replay=RB)

    f = prog.one(r'core_document::<impl at [^>]*>::map_unchecked$')
    paths, ex = A.paths(f)

    def r_mu(p):
        if p.kind != 'return':
            return None   # the infallible expect
        tm = [c for c in p.calls if re.search(r'CoreDocumentData::try_map$', c.name)]
        if len(tm) != 1:
            return 'the data of this document is not mapped exactly once'
        for a, n in zip(tm[0].args[1:5], ORDER):
            caps = [x for x in term_leaves(a) if x in ORDER]
            if caps != [n]:
                return 'the %s slot is fed with a closure over %s' % (n, caps)
        return None
    A.require('CoreDocument::map_unchecked/forwards-the-four-functions-in-their-roles', paths, r_mu, replay=RB)


def unpack_from_output(ctx, prog):
    """IotaDocument::unpack_from_output (what resolution uses): the empty deactivated document is produced only for *empty* state metadata
    with allow_empty; non-empty metadata goes through StateMetadataDocument::unpack and every error of it is returned (a truncated header
    or a length prefix exceeding the data must not turn into a deactivated document)."""
    A = Auditor(ctx, prog)
    fs = prog.find(r'<impl at [^>]*iota_document\.rs[^>]*>::unpack_from_output$')
    if not fs:
        return          # built without the client feature
    paths, ex = A.paths(fs[0])

    def r_uo(p):
        if p.kind != 'return':
            return None
        un = p.find_calls(r'StateMetadataDocument::unpack$')
        if un and p.took(un[0], 'Err'):
            t = p.term()
            if not (p.is_err() and is_sub_t14(t, ('field', un[0].ret, 0, 'Err'))):
                return 'an error of StateMetadataDocument::unpack is not returned (e.g. turned into an empty document)'
            return None
        ne = p.find_calls(r'IotaDocument::new_with_id$')
        if ne and p.is_ok():
            ie = [c for c in p.calls if re.search(r'::is_empty$', c.name) and apps(('x', tuple(c.args)), r'state_metadata$')]
            if not ie or not p.took(ie[0].ret, 'true'):
                return 'the empty document is produced although the state metadata was not tested to be empty'
            if un:
                return 'the empty document is produced after an unpack attempt'
        return None
    A.require('IotaDocument::unpack_from_output/empty-document-only-for-empty-metadata-errors-returned', paths, r_uo,
              replay={'scenario': 'state_metadata', 'cex': {'only': '[from-output]'}})


def is_sub_t14(t, want):
    return any(x == want for x in subterms(t))


def main(ctx):
    prog, info = load(CRATES)
    ctx.extra['mir'] = info
    ctx.outside += ['JSON body round trip (serde)', 'CoreDocument::try_map / map_unchecked applying the closures to the right fields (identity_document, iterator code)',
                    'document shapes, metadata contents']
    guarded(ctx, 'state metadata framing and rebasing', 'M', lambda: run(ctx, prog))
    guarded(ctx, 'rewriting primitives (map / try_map)', 'M', lambda: maps(ctx))
    guarded(ctx, 'serde skip predicates of the packed structures', 'M', lambda: serde_skips(ctx, prog))
    guarded(ctx, 'unpack_from_output', 'M', lambda: unpack_from_output(ctx, prog))
    # unpacking rebuilds the document through the constructor gate: what pack accepted must pass it again - identifiers are told apart
    # as whole DID URLs (C04's gate obligation, re-used)
    import c04

    def gate():
        prog2, info2 = load(c04.CRATES, src_only=c04.SRC)
        c04.run(ctx, prog2, only=r'^check_id_constraints/')
    guarded(ctx, 'constructor gate (shared with C04)', 'M', gate)
