"""C01 - JWS verification binds the signature to exactly the bytes received.

Engine M (binding audit) over decode_compact/flattened/general, expand_payload, decode_signature, DecodedHeaders,
JwsValidationItem::verify, Jwk::check_alg;  engine K for create_message / base64url injectivity (thorough).
"""
import re
import z3
from core import *
from execu import Exec, State, Refuse, VOver
from values import *
from audit import *
from loader import load

CRATES = ['identity_jose']
REPLAY = {'scenario': 'jws_binding'}


def fidx(prog, struct, name):
    fs = prog.structs.get(struct)
    if not fs or name not in fs:
        raise Refuse('struct %s has no field %s in source (%s)' % (struct, name, fs))
    return fs.index(name)


def is_field_of(t, leaf, chain):
    """t is (after stripping wrappers) the projection leaf.chain ; chain = [(variant|'' , idx), ...]"""
    fp = field_path(strip(t))
    if fp is None:
        return False
    l, path = fp
    return l == leaf and [(v or '', i) for v, i in path] == [(v or '', i) for v, i in chain]


def rel_path(t, root):
    """t is a chain of field/ref/deref projections over the term `root`: [(variant, idx), ...] else None"""
    path = []
    while isinstance(t, tuple):
        if t == root:
            return list(reversed(path))
        if t[0] in ('ref', 'deref'):
            t = t[1]
        elif t[0] == 'field':
            path.append((t[3] or '', t[2]))
            t = t[1]
        else:
            return None
    return None


def item_requirements(A, prog, label, paths, okp, sig_of, is_pay, item_of):
    """requirements on a JwsValidationItem built from (received payload, received signature record).
    sig_of(path) -> term of the signature record; is_pay(term) -> the term is the received payload; item_of(path) -> item value"""
    S = lambda name: fidx(prog, 'JwsSignature', name)   # noqa
    I = lambda name: fidx(prog, 'JwsValidationItem', name)   # noqa
    prot = [('', S('protected')), ('Some', 0)]
    sig = [('', S('signature'))]
    hdr = ('', S('header'))

    def sfield(p, t, chain):
        return rel_path(strip(t), sig_of(p)) == chain

    def item_field(p, name):
        it = item_of(p)
        if not (isinstance(it, VAgg) and len(it.fields) == 4):
            raise Refuse('%s returns %r' % (label, it))
        return p.term(it.fields[I(name)])

    def mentions_sig_field(p, t, first):
        root = sig_of(p)
        for s in subterms(t):
            if isinstance(s, tuple) and s and s[0] == 'field':
                rp = rel_path(s, root)
                if rp and rp[0] == first:
                    return True
        return False

    def mentions_input(p, t):
        root = sig_of(p)
        return any(s == root or (isinstance(s, tuple) and len(s) > 0 and is_pay(s)) for s in subterms(t))

    def protected_header_term_ok(p, t):
        """t denotes the header parsed from the received protected segment (or nothing else)"""
        js = apps(t, r'decode_b64_json$')
        return bool(js) and all(sfield(p, j[2][0], prot) for j in js) and not mentions_sig_field(p, t, hdr)

    def prot_absent(p):
        return p.took(('field', sig_of(p), S('protected'), ''), 'None')

    def r_signing_input(p):
        t = strip(item_field(p, 'signing_input'))
        if not (isinstance(t, tuple) and t[0] == 'app' and re.search(r'create_message$', t[1]) and len(t[2]) == 2):
            return 'signing input is not create_message(..): %s' % term_str(t)[:200]
        a0, a1 = strip(t[2][0]), strip(t[2][1])
        if not is_pay(a1):
            return 'signing input payload part is not the received payload: %s' % term_str(a1)[:200]
        if sfield(p, a0, prot):
            return None
        if prot_absent(p) and not mentions_input(p, a0):
            return None
        return 'signing input header part is not the received protected segment: %s' % term_str(a0)[:200]
    A.require(label + '/signing-input=received-protected.payload', okp, r_signing_input, replay=REPLAY)

    def r_signature(p):
        t = strip(item_field(p, 'decoded_signature'))
        if isinstance(t, tuple) and t[0] == 'field' and t[3] == 'Ok':
            a = t[1]
            if isinstance(a, tuple) and a[0] == 'app' and re.search(r'decode_b64$', a[1]) and sfield(p, a[2][0], sig):
                return None
        return 'decoded signature is not b64url-decode(received signature): %s' % term_str(t)[:200]
    A.require(label + '/signature=decode(received-signature)', okp, r_signature, replay=REPLAY)

    def r_claims(p):
        it = item_of(p)
        c = it.fields[I('claims')]
        if not isinstance(c, VAgg) or c.variant not in ('Owned', 'Borrowed'):
            return 'claims is not a Cow built from the payload on this path: %s' % term_str(p.term(c))[:160]
        inner = strip(p.term(c.fields[0]))
        # the flag is read through JwsHeader::b64 directly or through the extract_b64 helper of jwu
        b64calls = p.find_calls(r'JwsHeader::b64$|(^|::)extract_b64$')
        flags = [bc for bc in b64calls if protected_header_term_ok(p, bc.args[0])]
        foreign = [bc for bc in b64calls if not protected_header_term_ok(p, bc.args[0]) and mentions_input(p, bc.args[0])]
        if foreign:
            return 'b64 read from something that is not the parsed protected header: %s' % term_str(foreign[0].args[0])[:200]

        def flag_false(bc):
            if bc.name.endswith('extract_b64'):
                return p.took(bc.ret, 'false')
            return p.took(bc, 'Some') and p.took(('field', bc.ret, 0, 'Some'), 'false')
        if c.variant == 'Borrowed':
            if not is_pay(inner):
                return 'unencoded claims are not the received payload: %s' % term_str(inner)[:160]
            if any(flag_false(bc) for bc in flags):
                return None
            return 'payload used unencoded although protected b64 is not Some(false)'
        ok = (isinstance(inner, tuple) and inner[0] == 'field' and inner[3] == 'Ok' and isinstance(inner[1], tuple)
              and inner[1][0] == 'app' and re.search(r'decode_b64$', inner[1][1]) and is_pay(strip(inner[1][2][0])))
        if not ok:
            return 'decoded claims are not b64url-decode(received payload): %s' % term_str(inner)[:200]
        if any(flag_false(bc) for bc in flags):
            return 'payload was base64-decoded although protected b64=false'
        if not flags and not prot_absent(p):
            return 'b64 of the protected header never consulted'
        return None
    A.require(label + '/claims=decode(payload)-unless-protected-b64-false', okp, r_claims, replay=REPLAY)

    def r_validated(p):
        for c in p.find_calls(r'validate_jws_headers$'):
            if not p.took(c, 'Ok'):
                continue
            a0, a1 = c.args
            a0_ok = protected_header_term_ok(p, a0) or (prot_absent(p) and not mentions_input(p, a0))
            a1_ok = (mentions_sig_field(p, a1, hdr) and not apps(a1, r'decode_b64_json$')) or \
                (p.took(('field', sig_of(p), S('header'), ''), 'None') and not mentions_input(p, a1))
            if a0_ok and a1_ok:
                return None
        return 'accepted without validate_jws_headers(protected, unprotected) returning Ok'
    A.require(label + '/header-policy-enforced', okp, r_validated, replay=REPLAY)

    def r_headers(p):
        t = strip(item_field(p, 'headers'))
        if isinstance(t, tuple) and t[0] == 'field' and t[3] == 'Ok' and isinstance(t[1], tuple) and t[1][0] == 'app' \
                and re.search(r'DecodedHeaders::new$', t[1][1]):
            a0, a1 = t[1][2]
            if (protected_header_term_ok(p, a0) or not mentions_input(p, a0)) \
                    and mentions_sig_field(p, a1, hdr) and not mentions_sig_field(p, a0, hdr):
                return None
        return 'item headers are not DecodedHeaders::new(parsed protected, received unprotected): %s' % term_str(t)[:200]
    A.require(label + '/headers-kept-apart', okp, r_headers, replay=REPLAY)
    A.no_panic(label + '/no-panic', paths, replay=REPLAY)


def run(ctx, prog, only=None):
    A = Auditor(ctx, prog, only=only)
    S = lambda name: fidx(prog, 'JwsSignature', name)   # noqa
    I = lambda name: fidx(prog, 'JwsValidationItem', name)   # noqa

    # ------------------------------------------------------------------------------------------------ decode_signature
    # helpers named decode_signature* are inlined, so splitting the function does not blind the audit
    DS_INLINE = r'decoder::<impl at [^>]*>::decode_signature\w+$|(^|::)extract_b64$'
    f = prog.one(r'decoder::<impl at [^>]*>::decode_signature$')
    paths, ex = A.paths(f, inline=DS_INLINE)
    okp = [p for p in paths if p.kind == 'return' and p.is_ok()]
    if not okp:
        raise Refuse('decode_signature has no Ok path')
    item_requirements(A, prog, 'decode_signature', paths, okp, lambda p: ('leaf', 'jws_signature'), lambda t: t == ('leaf', 'payload'),
                      lambda p: p.payload())

    # ---------------------------------------------------------------------------------------------------- expand_payload
    f = prog.one(r'decoder::<impl at [^>]*>::expand_payload$')
    paths, ex = A.paths(f)

    def r_expand(p):
        if p.kind != 'return':
            return 'panic ' + p.msg
        filt = p.find_calls(r'filter_non_empty_bytes$')
        if len(filt) != 1 or strip(filt[0].args[0]) != ('leaf', 'parsed_payload'):
            return 'attached payload not filtered for emptiness'
        det_some = p.took(('leaf', 'detached_payload'), 'Some')
        det_none = p.took(('leaf', 'detached_payload'), 'None')
        att_some = p.took(filt[0], 'Some')
        att_none = p.took(filt[0], 'None')
        if p.is_ok():
            t = strip(p.term(p.payload()))
            if det_some and att_none and is_field_of(t, 'detached_payload', [('Some', 0)]):
                return None
            if det_none and att_some and t == ('field', filt[0].ret, 0, 'Some'):
                return None
            return 'payload accepted without exactly one source: %s' % term_str(t)[:160]
        if (det_some and att_some) or (det_none and att_none):
            return None
        return 'rejected although exactly one payload source is present'
    A.require('expand_payload/exactly-one-source', paths, r_expand, replay=REPLAY)

    # ------------------------------------------------------------------------------------------- filter_non_empty_bytes
    # (iterator combinators; the emptiness filter itself is a closure)
    cl = [g for g in prog.funcs if re.search(r'filter_non_empty_bytes::\{closure#0\}$', g.name)]
    if len(cl) != 1:
        raise Refuse('filter_non_empty_bytes closure not found')
    paths, ex = A.paths(cl[0])

    def r_filter(p):
        if p.kind != 'return':
            return 'panic ' + p.msg
        emp = p.find_calls(r'is_empty$')
        if len(emp) == 1 and isinstance(p.val, VBool):
            b = ex.sym_bool(emp[0].ret).e
            if p.implies(p.val.e == z3.Not(b)):
                return None
        return 'filter closure is not `!value.is_empty()`'
    A.require('filter_non_empty_bytes/keeps-exactly-non-empty', paths, r_filter, replay=REPLAY)

    # ------------------------------------------------------------------------------------ compact / flattened / general
    f = prog.one(r'decoder::<impl at [^>]*>::decode_compact_serialization$')
    paths, ex = A.paths(f)
    okc = [p for p in paths if p.kind == 'return' and not (isinstance(p.val, VAgg) and p.val.variant == 'Err')]

    def r_compact(p):
        t = p.term()
        ds = apps(t, r'decode_signature$')
        if len(ds) != 1 or strip(t) != ds[0]:
            return 'compact decode does not end in decode_signature: %s' % term_str(t)[:160]
        _, payload_t, sig_t = ds[0][2]
        nexts = [c for c in p.find_calls(r'Split<.*Iterator>::next$')]
        if len(nexts) != 4:
            return 'expected exactly four segment reads, saw %d' % len(nexts)
        if not (p.took(nexts[0], 'Some') and p.took(nexts[1], 'Some') and p.took(nexts[2], 'Some') and p.took(nexts[3], 'None')):
            return 'accepted without exactly three segments'
        sp = apps(p.term(nexts[0].argvals[0]), r'::split$')
        if not sp or strip(sp[0][2][0]) != ('leaf', 'jws_bytes'):
            return 'segments are not split from the received bytes'
        seg = [('field', n.ret, 0, 'Some') for n in nexts[:3]]
        if not (isinstance(sig_t, tuple) and sig_t[0] == 'agg' and len(sig_t[3]) == 3):
            return 'signature record is not built field-wise: %s' % term_str(sig_t)[:160]
        h, pr, sg = sig_t[3][S('header')], sig_t[3][S('protected')], sig_t[3][S('signature')]
        if not (h[0] == 'agg' and h[2] == 'None'):
            return 'compact form must not carry an unprotected header'

        def utf8_of(x, s):
            x = strip(x)
            if x[0] == 'agg' and x[2] == 'Some':
                x = strip(x[3][0])
            return (x[0] == 'field' and x[3] == 'Ok' and x[1][0] == 'app' and re.search(r'parse_utf8$', x[1][1])
                    and strip(x[1][2][0]) == s)
        if not utf8_of(pr, seg[0]):
            return 'protected string is not segment 1 as received: %s' % term_str(pr)[:160]
        if not utf8_of(sg, seg[2]):
            return 'signature string is not segment 3 as received: %s' % term_str(sg)[:160]
        pt = strip(payload_t)
        if not (pt[0] == 'field' and pt[3] == 'Ok' and pt[1][0] == 'app' and re.search(r'expand_payload$', pt[1][1])):
            return 'payload does not come from expand_payload'
        d, a = pt[1][2]
        a = strip(a)
        if strip(d) != ('leaf', 'detached_payload') or not (a[0] == 'agg' and a[2] == 'Some' and strip(a[3][0]) == seg[1]):
            return 'expand_payload not called with (detached, segment 2)'
        return None
    A.require('decode_compact/three-segments-as-received', okc, r_compact, replay=REPLAY)
    A.no_panic('decode_compact/no-panic', paths, replay=REPLAY)

    spl = [g for g in prog.funcs if re.search(r'decode_compact_serialization::\{closure#0\}$', g.name)]
    if len(spl) != 1:
        raise Refuse('segment separator closure not found')
    st = State()
    b = z3.BitVec('byte', 8)
    st.mem['b'] = VInt(b, 8)
    paths, ex = A.paths(spl[0], args=[VAgg('closure', None, []), VRef('b')], state=st)
    A.require('decode_compact/separator-is-dot', paths,
              lambda p: None if (p.kind == 'return' and isinstance(p.val, VBool) and p.implies(p.val.e == (b == 46))) else 'separator closure is not `byte == b\'.\'`',
              replay=REPLAY)

    for which, struct in (('flattened', 'Flatten'), ('general', 'General')):
        f = prog.one(r'decoder::<impl at [^>]*>::decode_%s_serialization$' % which)
        paths, ex = A.paths(f)
        okf = [p for p in paths if p.kind == 'return' and not (isinstance(p.val, VAgg) and p.val.variant == 'Err')]

        def r_json(p, which=which, struct=struct):
            fs = p.find_calls(r'(^|::)from_slice$')
            if len(fs) != 1 or strip(fs[0].args[0]) != ('leaf', 'jws_bytes') or not p.took(fs[0], 'Ok'):
                return 'envelope not parsed from the received bytes'
            data = ('field', fs[0].ret, 0, 'Ok')
            eps = [c for c in p.find_calls(r'expand_payload$') if p.took(c, 'Ok')]
            if len(eps) != 1:
                return 'payload not taken through expand_payload'
            d, a = eps[0].args
            pi = fidx(prog, struct, 'payload')
            if strip(d) != ('leaf', 'detached_payload') or not is_sub(strip(a), ('field', data, pi, '')):
                return 'expand_payload not called with (detached, envelope payload): %s' % term_str(a)[:160]
            payload_t = ('field', eps[0].ret, 0, 'Ok')
            t = p.term()
            if which == 'flattened':
                ds = apps(t, r'decode_signature$')
                si = fidx(prog, struct, 'signature')
                if len(ds) != 1 or strip(t) != ds[0] or strip(ds[0][2][1]) != payload_t or strip(ds[0][2][2]) != ('field', data, si, ''):
                    return 'flattened decode does not end in decode_signature(payload, envelope signature)'
                return None
            it = p.payload()
            if not (isinstance(it, VAgg) and len(it.fields) == 3):
                return 'general decode does not return the validation iterator'
            ii = prog.structs['JwsValidationIter']
            pay = strip(p.term(it.fields[ii.index('payload')]))
            sigs = p.term(it.fields[ii.index('signatures')])
            si = fidx(prog, struct, 'signatures')
            if pay != payload_t or not is_sub(sigs, ('field', data, si, '')):
                return 'iterator does not carry (payload, envelope signatures)'
            return None
        A.require('decode_%s/envelope-fields-as-received' % which, okf, r_json, replay=REPLAY)

    # the general iterator: every item it yields obeys the same item requirements, with payload := the iterator's payload and
    # signature record := what the signatures iterator handed out (decode_signature* and the closure are inlined)
    f = prog.one(r'decoder::<impl at [^>]*>::next$', sig=r'JwsValidationIter')
    paths, ex = A.paths(f, inline=r'decoder::<impl at [^>]*>::(decode_signature\w*|next::\{closure#\d+\})$|(^|::)extract_b64$')
    ii = prog.structs['JwsValidationIter']

    def it_sig(p):
        nx = [c for c in p.find_calls(r'IntoIter<.*JwsSignature.*Iterator>::next$')]
        if len(nx) != 1:
            raise Refuse('general iterator does not draw exactly one signature per item')
        fp = field_path(strip(nx[0].args[0]))
        if not fp or fp[0] != 'self' or [i for _, i in fp[1]] != [ii.index('signatures')]:
            raise Refuse('signature not drawn from the iterator\'s own signatures')
        return ('field', nx[0].ret, 0, 'Some')

    def it_pay(t):
        fp = field_path(t)
        return bool(fp) and fp[0] == 'self' and [i for _, i in fp[1]] == [ii.index('payload')]

    def it_item(p):
        v = p.val
        if not (isinstance(v, VAgg) and v.variant == 'Some' and isinstance(v.fields[0], VAgg) and v.fields[0].variant == 'Ok'):
            raise Refuse('iterator result %r' % (v,))
        return v.fields[0].fields[0]
    oki = [p for p in paths if p.kind == 'return' and isinstance(p.val, VAgg) and p.val.variant == 'Some'
           and isinstance(p.val.fields[0], VAgg) and p.val.fields[0].variant == 'Ok']
    if not oki:
        raise Refuse('general iterator has no path yielding an item')
    item_requirements(A, prog, 'decode_general/item', paths, oki, it_sig, it_pay, it_item)

    # ----------------------------------------------------------------------------------------------------------- verify
    f = prog.one(r'decoder::<impl at [^>]*>::verify$')
    paths, ex = A.paths(f)
    okv = [p for p in paths if p.kind == 'return' and p.is_ok()]
    if not okv:
        raise Refuse('verify has no Ok path')
    hi = I('headers')

    def prot_of(p):
        """term of the protected header on this path (Protected.0 / Both.protected)"""
        dh = ('field', ('leaf', 'self'), hi, '')
        out = []
        if p.took(dh, 'Continue') or True:
            tabs = prog.enums.get('DecodedHeaders') or {}
            d = ex.discr_var(dh)
            for vname, idx in tabs.items():
                if p.implies(d == z3.BitVecVal(idx, 64)):
                    out.append(vname)
        return out

    def r_verify(p):
        vs = [c for c in p.find_calls(r'JwsVerifier>::verify$') if p.took(c, 'Ok')]
        if len(vs) != 1:
            return 'reported verified without exactly one successful verifier call'
        _, inp, key = vs[0].args
        if strip(key) != ('leaf', 'public_key'):
            return 'verifier not given the caller\'s key'
        if not (inp[0] == 'agg' and len(inp[3]) == 3):
            return 'verification input not built field-wise'
        vi = prog.structs['VerificationInput']
        alg, si, ds = inp[3][vi.index('alg')], strip(inp[3][vi.index('signing_input')]), strip(inp[3][vi.index('decoded_signature')])
        if si != ('field', ('leaf', 'self'), I('signing_input'), '') or ds != ('field', ('leaf', 'self'), I('decoded_signature'), ''):
            return 'verifier not given the item\'s signing input / decoded signature'
        variants = prot_of(p)
        if len(variants) != 1 or variants[0] == 'Unprotected':
            return 'verified without a protected header (%s)' % variants
        algc = apps(alg, r'JwsHeader::alg$')
        if len(algc) != 1 or not p.took(algc[0], 'Some'):
            return 'alg handed to the verifier is not the protected header\'s alg'
        fp = field_path(algc[0][2][0])
        both = prog.structs.get('Both') or ['protected', 'unprotected']
        want = [('', hi), (variants[0], 0)]
        if not fp or fp[0] != 'self' or [(v or '', i) for v, i in fp[1]] != want:
            return 'alg read from %s, not from the protected header' % term_str(algc[0][2][0])
        cas = [c for c in p.find_calls(r'Jwk::check_alg$') if p.took(c, 'Ok')]
        if not any(strip(c.args[0]) == ('leaf', 'public_key') and apps(c.args[1], r'JwsHeader::alg$') == algc for c in cas):
            return 'key.alg not checked against the protected alg'
        out = p.payload()
        dj = prog.structs['DecodedJws']
        claims = strip(p.term(out.fields[dj.index('claims')]))
        protected = strip(p.term(out.fields[dj.index('protected')]))
        if claims != ('field', ('leaf', 'self'), I('claims'), ''):
            return 'returned claims are not the item\'s claims'
        if field_path(protected) != ('self', want):
            return 'returned protected header is not the verified one'
        return None
    A.require('verify/verifier-gets-item-bytes-protected-alg-caller-key', okv, r_verify, replay=REPLAY)
    A.no_panic('verify/no-panic', paths, replay=REPLAY)

    # -------------------------------------------------------------------------------- item accessors used by the verifiers
    # nonce / kid / alg are exactly what the *protected* header carries (nothing filtered, nothing taken from elsewhere)
    for acc in ('nonce', 'kid', 'alg'):
        f = prog.one(r'decoder::<impl at [^>]*>::%s$' % acc, sig=r'^&(\w+::)*JwsValidationItem')
        paths, ex = A.paths(f, inline=r'decoder::<impl at [^>]*>::%s::\{closure#\d+\}$' % acc)

        def r_acc(p, acc=acc):
            if p.kind != 'return':
                return 'panic ' + p.msg
            ph = [c for c in p.find_calls(r'(JwsValidationItem|DecodedHeaders)::protected_header$') if mentions(c.args, r'^self$')]
            if not ph:
                return 'protected header not consulted'
            if p.took(ph[0], 'None'):
                return None if isinstance(p.val, VAgg) and p.val.variant == 'None' else 'value reported without a protected header'
            t = strip(p.term())
            ok = isinstance(t, tuple) and t and t[0] == 'app' and re.search(r'(JwsHeader|JwtHeader)::%s$' % acc, t[1]) and is_sub(t[2][0], ('field', ph[0].ret, 0, 'Some'))
            return None if ok else '%s() is not the protected header\'s %s as it stands: %s' % (acc, acc, term_str(t)[:140])
        A.require('JwsValidationItem::%s/is-the-protected-headers-value' % acc, paths, r_acc, replay={'scenario': 'jws_binding'})

    f = prog.one(r'decoder::<impl at [^>]*>::protected_header$', sig=r'^&(\w+::)*JwsValidationItem')
    paths, ex = A.paths(f)
    A.require('JwsValidationItem::protected_header/is-the-decoded-protected-header', paths,
              lambda p: None if (p.kind == 'return' and strip(p.term())[0] == 'app' and re.search(r'DecodedHeaders::protected_header$', strip(p.term())[1])
                                 and field_path(strip(p.term())[2][0]) == ('self', [('', I('headers'))])) else 'not self.headers.protected_header()',
              replay={'scenario': 'jws_binding'})

    # --------------------------------------------------------------------------- DecodedHeaders::new + accessors (kernel)
    f_new = prog.one(r'decoder::<impl at [^>]*>::new$', sig=r'JwsHeader>.*JwsHeader>.* -> .*DecodedHeaders')
    f_ph = prog.one(r'decoder::<impl at [^>]*>::protected_header$', sig=r'^&(\w+::)*DecodedHeaders')
    f_uh = prog.one(r'decoder::<impl at [^>]*>::unprotected_header$', sig=r'^&(\w+::)*DecodedHeaders')
    paths, ex = A.paths(f_new, inline=r'protected_header$|unprotected_header$')

    def r_dh(p):
        if p.kind != 'return':
            return 'panic'
        ps, us = p.took(('leaf', 'protected'), 'Some'), p.took(('leaf', 'unprotected'), 'Some')
        pn, un = p.took(('leaf', 'protected'), 'None'), p.took(('leaf', 'unprotected'), 'None')
        if pn and un:
            return None if p.is_err() else 'no header at all accepted'
        if not p.is_ok():
            return 'headers rejected although one is present'
        st = p.st.fork()
        st.mem['dh'] = p.payload()
        for fn, present, leafname in ((f_ph, ps, 'protected'), (f_uh, us, 'unprotected')):
            outs = [o for o in ex.run(fn, [VRef('dh')], st.fork()) if o.kind == 'return']
            if len(outs) != 1:
                return 'accessor has %d outcomes' % len(outs)
            v = outs[0].val
            if not isinstance(v, VAgg):
                return 'accessor result %r' % (v,)
            if present != (v.variant == 'Some'):
                return '%s_header() presence differs from what was decoded' % leafname
            if present:
                t = strip(ex.to_term(outs[0].st, v.fields[0]))
                if not is_field_of(t, leafname, [('Some', 0)]):
                    return '%s_header() returns %s' % (leafname, term_str(t)[:120])
        return None
    A.require('DecodedHeaders/new-and-accessors-keep-protected-and-unprotected-apart', paths, r_dh, replay=REPLAY)

    # -------------------------------------------------------------------------------------------------- Jwk::check_alg
    f = prog.one(r'jwk::key::<impl at [^>]*>::check_alg$')
    paths, ex = A.paths(f)

    def r_check_alg(p):
        if p.kind != 'return':
            return 'panic ' + p.msg
        algs = p.find_calls(r'Jwk::alg$')
        # Ok <=> key has no alg, or key alg == expected
        eqs = p.find_calls(r'PartialEq.*>::(eq|ne)$')
        key_alg_none = any(p.took(c, 'None') for c in algs) or p.took(('field', ('deref', ('leaf', 'self')), fidx(prog, 'Jwk', 'alg'), ''), 'None')
        if p.is_ok():
            if key_alg_none:
                return None
            for c in eqs:
                names = leaves(c.args)
                if 'expected' in names and ('self' in names):
                    want = 'true' if c.name.endswith('::eq') else 'false'
                    if p.took(c.ret, want):
                        return None
            return 'check_alg accepts without comparing the key alg with the expected alg'
        if key_alg_none:
            return 'key without alg rejected'
        for c in eqs:
            names = leaves(c.args)
            if 'expected' in names and 'self' in names:
                want = 'false' if c.name.endswith('::eq') else 'true'
                if p.took(c.ret, want):
                    return None
        return 'check_alg rejects although the algorithms compare equal'
    A.require('check_alg/ok-iff-unpinned-or-equal', paths, r_check_alg, replay=REPLAY)


def is_sub(t, want):
    return any(s == want for s in subterms(t))


def verifier_dispatch(ctx):
    """the bundled verifiers dispatch on input.alg - the algorithm JwsValidationItem::verify read from the protected header -
    and on nothing else: ES256 -> P-256, ES256K -> secp256k1, EdDSA -> Ed25519, every other algorithm is refused"""
    prog, info = load(['identity_ecdsa_verifier', 'identity_eddsa_verifier'], src_only=['identity_jose'])
    ctx.extra['mir_verifiers'] = info
    A = Auditor(ctx, prog)
    algs = prog.enums['JwsAlgorithm']
    vi = prog.structs['VerificationInput']
    WANT = {r'Secp256R1Verifier::verify$': 'ES256', r'Secp256K1Verifier::verify$': 'ES256K', r'Ed25519Verifier::verify$': 'EdDSA'}
    RB = {'scenario': 'verifier_dispatch'}
    for label, rx in (('EcDSAJwsVerifier', r'ecdsa_jws_verifier::<impl at [^>]*>::verify$'), ('EdDSAJwsVerifier', r'eddsa_verifier::<impl at [^>]*>::verify$')):
        f = prog.one(rx)
        paths, ex = A.paths(f)
        d = ex.discr_var(('field', ('leaf', 'input'), vi.index('alg'), ''))

        def r_disp(p, d=d):
            if p.kind != 'return':
                return 'panic ' + p.msg
            cs = [c for c in p.calls if any(re.search(k, c.name) for k in WANT)]
            if p.is_ok() and not (len(cs) == 1 and strip(p.term()) == cs[0].ret):
                return 'reported verified without being the result of exactly one scheme verifier'
            for c in cs:
                alg = [v for k, v in WANT.items() if re.search(k, c.name)][0]
                if not p.implies(d == z3.BitVecVal(algs[alg], 64)):
                    return '%s consulted although input.alg is not established to be %s' % (c.name.split('::')[-2], alg)
                if not mentions(c.args, r'^input$') or not mentions(c.args, r'^public_key$'):
                    return 'scheme verifier not given the input and the caller\'s key'
            return None
        A.require('%s/scheme-selected-by-input-alg-only' % label, paths, r_disp, replay=RB)


def scheme_verifiers(ctx):
    """Ed25519Verifier / Secp256R1Verifier / Secp256K1Verifier: Ok only from the primitive's verification over the caller's key, the
    *whole* decoded signature converted by a length-checking conversion, and the item's signing input"""
    prog, info = load(['identity_eddsa_verifier', 'identity_ecdsa_verifier'], src_only=['identity_jose'])
    A = Auditor(ctx, prog)
    vi = prog.structs['VerificationInput']
    RB = {'scenario': 'verifier_dispatch'}

    def from_input(t, field):
        for s_ in subterms(t):
            fp = field_path(s_) if isinstance(s_, tuple) and s_ and s_[0] in ('field', 'ref', 'deref') else None
            if fp and fp[0] == 'input' and fp[1] and fp[1][0][1] == vi.index(field):
                return True
        return False

    for label, rx, prim in (('Ed25519Verifier', r'ed25519_verifier::<impl at [^>]*>::verify$', r'ed25519::PublicKey::verify$|PublicKey::verify$'),
                            ('Secp256R1Verifier', r'secp256r1::<impl at [^>]*>::verify$', r'Verifier<.*>>::verify$|::verify$'),
                            ('Secp256K1Verifier', r'secp256k1::<impl at [^>]*>::verify$', r'Verifier<.*>>::verify$|::verify$')):
        f = prog.one(rx)
        # helpers of the same source file (coordinate / key decoding) are followed, so that moving code into one hides nothing
        try:
            paths, ex = A.paths(f, inline=rx[:-1] + r'::\{closure', same_file=True)
        except Refuse:
            paths, ex = A.paths(f, inline=rx[:-1] + r'::\{closure')

        def r_sv(p, prim=prim, label=label):
            if p.kind != 'return' or not p.is_ok():
                return None
            conv = [c for c in p.calls if re.search(r'TryFrom<&\[u8\]>>::try_from$|TryFrom<&.*\[u8\]>>::try_from$|Signature::try_from$|Signature::from_slice$', c.name)
                    and from_input(('x', tuple(c.args)), 'decoded_signature')]
            if not conv:
                # the conversion into a fixed-size array is modelled precisely (no call record): the path must then imply that the
                # decoded signature has exactly the primitive's signature length and the array is made of its bytes
                dr = [c for c in p.calls if re.search(r'Deref>::deref$', c.name) and from_input(('x', tuple(c.args)), 'decoded_signature')]
                fb = [c for c in p.calls if re.search(r'Signature::from_bytes$', c.name)]
                if dr and fb and isinstance(fb[0].argvals[0], VAgg) and len(fb[0].argvals[0].fields) > 0:
                    n = len(fb[0].argvals[0].fields)
                    sb = ex.sym_bytes(dr[0].ret)
                    if p.implies(sb.len == n) and 'decoded_signature' not in '' and term_str(dr[0].ret) in term_str(fb[0].args[0]):
                        vs = [c for c in p.calls if re.search(prim, c.name) and from_input(('x', tuple(c.args)), 'signing_input')]
                        return None if vs else 'accepted without the primitive verifying over the item\'s signing input'
                return 'the decoded signature is not converted by a length-checking conversion of the whole byte string'
            a0 = strip(conv[0].args[0])
            while isinstance(a0, tuple) and a0 and a0[0] == 'app' and re.search(r'Deref>::deref$|AsRef<.*>>::as_ref$|as_slice$', a0[1]):
                a0 = strip(a0[2][0])
            fp = field_path(a0)
            if not fp or fp[0] != 'input':
                return 'the signature handed to the conversion is not the decoded signature as a whole: %s' % term_str(conv[0].args[0])[:100]
            vs = [c for c in p.calls if re.search(prim, c.name) and from_input(('x', tuple(c.args)), 'signing_input')]
            if not vs:
                return 'accepted without the primitive verifying over the item\'s signing input'
            return None
        A.require('%s/whole-signature-and-signing-input-reach-the-primitive' % label, paths, r_sv, replay=RB)

        if label == 'Ed25519Verifier':
            continue
        EC = prog.structs['JwkParamsEc']

        def coord(t, name):
            """t derives from decode_b64(<the key's EC params>.<name>)"""
            for a in apps(t, r'decode_b64$'):
                fp = None
                for s_ in subterms(a[2][0]):
                    if isinstance(s_, tuple) and s_ and s_[0] == 'field' and s_[2] == EC.index(name) and apps(s_, r'try_ec_params$') and mentions(s_, r'^public_key$'):
                        fp = s_
                if fp is not None:
                    return True
            return False

        def r_key(p, prim=prim, label=label):
            if p.kind != 'return' or not p.is_ok():
                return None
            vs = [c for c in p.calls if re.search(prim, c.name) and from_input(('x', tuple(c.args)), 'signing_input')]
            fe = [c for c in p.calls if re.search(r'FromEncodedPoint<.*>>::from_encoded_point$|PublicKey.*::from_sec1_bytes$', c.name)]
            if not vs or not fe:
                return 'no public key built from an encoded point reaches the primitive'
            if not any(s_ == fe[0].ret for s_ in subterms(vs[0].args[0])):
                return 'the primitive does not verify with the key built from the caller\'s JWK'
            ep = fe[0].args[0]
            ub = apps(ep, r'EncodedPoint(<.*>)?::from_untagged_bytes$')
            ac = [c for c in p.calls if re.search(r'EncodedPoint(<.*>)?::from_affine_coordinates$', c.name)]
            if ub:
                src = ub[0][2][0]
                if not (coord(src, 'x') and coord(src, 'y')):
                    return 'the encoded point is not made of both decoded coordinates of the key'
                # x first, then y: the chain's receiver carries x
                ch = apps(src, r'Iterator>::chain$')
                if ch and not (coord(ch[0][2][0], 'x') and coord(ch[0][2][1], 'y') and not coord(ch[0][2][0], 'y')):
                    return 'coordinates concatenated in another order than x || y'
                return None
            if ac and any(s_ == ac[0].ret for s_ in subterms(ep)):
                c = ac[0]
                cv = c.argvals[2] if c.argvals and len(c.argvals) > 2 else None
                if not (coord(c.args[0], 'x') and coord(c.args[1], 'y')):
                    return 'affine coordinates are not (x, y) of the key'
                if not (isinstance(cv, VBool) and p.implies(z3.Not(cv.e))):
                    return 'the point is built in compressed form: y is reduced to its parity and re-derived from x, so a key with a wrong y is accepted'
                return None
            return 'the public key is not built from an uncompressed point over both coordinates of the key'
        A.require('%s/key-is-the-uncompressed-point-of-both-coordinates' % label, paths, r_key, replay=RB)


def codec_binding(ctx, prog):
    """jwu::{decode_b64, decode_b64_json, encode_b64, encode_b64_json}: one decoder and one encoder - the strict url-safe unpadded
    Base64 of the multibase engine - stand between the received text and the bytes that are verified; no second (lenient) route"""
    A = Auditor(ctx, prog)
    RB = {'scenario': 'jws_binding'}

    def arg_bytes(t):
        t = strip(t)
        while isinstance(t, tuple) and t and t[0] == 'app' and re.search(r'AsRef<.*>>::as_ref$|Deref>::deref$', t[1]):
            t = strip(t[2][0])
        return t

    f = prog.one(r'base64::decode_b64$')
    paths, ex = A.paths(f, inline=r'base64::decode_b64::\{closure')

    def r_dec(p):
        if p.kind != 'return':
            return 'panic ' + p.msg
        if not p.is_ok():
            return None
        u8 = [c for c in p.calls if re.search(r'(^|::)from_utf8$', c.name) and p.took(c, 'Ok') and arg_bytes(c.args[0]) == ('leaf', 'data')]
        dc = [c for c in p.calls if re.search(r'BaseEncoding::decode$', c.name) and p.took(c, 'Ok')]
        if len(u8) != 1 or len(dc) != 1 or strip(dc[0].args[0]) != ('field', u8[0].ret, 0, 'Ok') or 'Base64Url' not in term_str(dc[0].args[1]):
            return 'decoded bytes do not come from the strict Base64Url decoder applied to the whole input'
        extra = [c for c in p.calls if not c.inlined and c not in u8 + dc and not re.search(r'as_ref$|deref$', c.name)]
        if extra:
            return 'another route besides the strict decoder: %s' % extra[0].name.split('::')[-1]
        return None if strip(p.term(p.payload())) == ('field', dc[0].ret, 0, 'Ok') else 'result is not the decoder\'s output'
    A.require('decode_b64/only-the-strict-base64url-decoder', paths, r_dec, replay=RB)

    f = prog.one(r'base64::encode_b64$')
    paths, ex = A.paths(f, inline=r'base64::encode_b64::\{closure')

    def r_enc(p):
        if p.kind != 'return':
            return 'panic ' + p.msg
        ec = [c for c in p.calls if re.search(r'BaseEncoding::encode$', c.name)]
        if len(paths) != 1 or len(ec) != 1 or arg_bytes(ec[0].args[0]) != ('leaf', 'data') or 'Base64Url' not in term_str(ec[0].args[1]):
            return 'text is not the Base64Url encoding of the whole input'
        return None if strip(p.term()) == strip(ec[0].ret) else 'result is not the encoder\'s output'
    A.require('encode_b64/base64url-of-the-whole-input', paths, r_enc, replay=RB)

    # create_message: the signing input is the header bytes, one '.', the payload bytes - as bytes, through nothing that could alter
    # them (a lossy text conversion, a trim, a re-encoding)
    f = prog.one(r'(^|::)create_message$')
    paths, ex = A.paths(f, inline=r'create_message::\{closure')

    def r_cm(p):
        if p.kind != 'return':
            return None   # header.len() + claims.len() + 1 on two slice lengths: cannot overflow usize for real slices (listed)
        steps = [c for c in p.calls if not c.inlined and not re.search(r'with_capacity$|::len$', c.name)]
        want = [(r'Extend<&u8>>::extend$|extend_from_slice$', 'header'), (r'Vec::push$|Vec<u8>::push$', None), (r'Extend<&u8>>::extend$|extend_from_slice$', 'claims')]
        if len(steps) != 3:
            return 'signing input is not built by exactly: append header, push, append claims (%s)' % [c.name.split('::')[-1] for c in steps][:6]
        for c, (rx, leaf) in zip(steps, want):
            if not re.search(rx, c.name):
                return 'signing input built through %s' % c.name.split('::')[-1]
            if leaf and strip(c.args[1]) != ('leaf', leaf):
                return 'the %s bytes are not appended as they were given' % leaf
        dot = steps[1].argvals[1] if steps[1].argvals else None
        if not (isinstance(dot, VInt) and p.implies(dot.e == 46)):
            return 'separator is not a single "."'
        return None
    A.require('create_message/header-dot-payload-byte-for-byte', paths, r_cm, replay=RB)
    ctx.assumptions.append('contract: create_message capacity arithmetic (two slice lengths + 1) cannot overflow usize')

    f = prog.one(r'base64::decode_b64_json$')
    paths, ex = A.paths(f, inline=r'base64::decode_b64_json::\{closure')

    def r_dj(p):
        if p.kind != 'return':
            return 'panic ' + p.msg
        if not p.is_ok():
            return None
        d = [c for c in p.calls if re.search(r'base64::decode_b64$', c.name) and p.took(c, 'Ok') and strip(c.args[0]) == ('leaf', 'data')]
        js = [c for c in p.calls if re.search(r'(^|::)from_slice$', c.name) and p.took(c, 'Ok')]
        if len(d) != 1 or len(js) != 1 or arg_bytes(js[0].args[0]) != ('field', d[0].ret, 0, 'Ok'):
            return 'JSON not parsed from decode_b64 of the whole input'
        return None if strip(p.term(p.payload())) == ('field', js[0].ret, 0, 'Ok') else 'result is not the parsed value'
    A.require('decode_b64_json/json-of-decode_b64', paths, r_dj, replay=RB)

    f = prog.one(r'base64::encode_b64_json$')
    paths, ex = A.paths(f, inline=r'base64::encode_b64_json::\{closure')

    def r_ej(p):
        if p.kind != 'return':
            return 'panic ' + p.msg
        if not p.is_ok():
            return None
        tv = [c for c in p.calls if re.search(r'(^|::)to_vec$', c.name) and p.took(c, 'Ok') and strip(c.args[0]) == ('leaf', 'data')]
        e = [c for c in p.calls if re.search(r'base64::encode_b64$', c.name)]
        if len(tv) != 1 or len(e) != 1 or strip(e[0].args[0]) != ('field', tv[0].ret, 0, 'Ok'):
            return 'text is not encode_b64 of the serialised value'
        return None if strip(p.term(p.payload())) == strip(e[0].ret) else 'result is not the encoded text'
    A.require('encode_b64_json/encode_b64-of-the-json-bytes', paths, r_ej, replay=RB)


def alg_names(ctx, prog):
    """`JwsAlgorithm::name()` is what a key's pinned `alg` is compared with (`check_alg(alg.name())`): for every variant it is the
    registered name of *that* variant (RFC 7518 section 3.1, RFC 8037, RFC 8812) - the table below is written from the RFCs."""
    from replay import run_replay
    name = 'JwsAlgorithm::name/registered-name-of-each-variant'
    rep = {'scenario': 'alg_names'}
    tab = prog.enums.get('JwsAlgorithm')
    fs = [f for f in prog.find(r'algorithm::<impl at [^>]*jws/algorithm\.rs[^>]*>::name$')]
    if tab:
        tab = {v: i for v, i in tab.items() if v != 'Custom'}      # behind the custom_alg feature (off)
    if not tab or len(fs) != 1:
        ctx.add(Ob(name, 'M', INCONCLUSIVE, detail='JwsAlgorithm / name() not found'))
        return
    want = {v: ('none' if v == 'NONE' else v) for v in tab}
    A = Auditor(ctx, prog)
    try:
        paths, ex = A.paths(fs[0])
        bad = None
        seen = set()
        for p in paths:
            if p.kind != 'return':
                bad = 'panic ' + p.msg
                break
            t = strip(p.term())
            d = ex.discr_var(('leaf', 'self'))
            vs = [v for v, i in tab.items() if p.implies(d == z3.BitVecVal(i, 64))]
            if len(vs) != 1 or not (isinstance(t, tuple) and t[0] == 'const' and isinstance(t[1], (bytes, bytearray))):
                raise Refuse('path of name() not attributable to one variant / not a literal: %s' % term_str(t)[:80])
            seen.add(vs[0])
            if bytes(t[1]).decode('ascii', 'replace') != want[vs[0]]:
                bad = 'name() of %s is %r' % (vs[0], bytes(t[1]).decode('ascii', 'replace'))
                break
        if not bad and seen != set(tab):
            raise Refuse('variants without a path: %s' % sorted(set(tab) - seen))
    except Refuse as e:
        bad = 'name() is not a per-variant literal (%s)' % str(e)[:160]
    if not bad:
        ctx.add(Ob(name, 'M', HELD, queries=len(tab), sample='%d variants, each returns its registered name' % len(tab)))
        return
    res = run_replay(rep)
    ctx.add(Ob(name, 'M', VIOLATED if res.get('reproduced') else INCONCLUSIVE, detail='%s | native: %s' % (bad, res.get('detail', '')[:300]), replay=rep, cex={'path': bad}))


def main(ctx):
    prog, info = load(CRATES)
    ctx.extra['mir'] = info
    ctx.bounds.append('audit: all paths of the listed acyclic orchestrators, callee results unconstrained (uninterpreted)')
    ctx.outside += ['serde parsing of headers/envelopes', 'the cryptography inside the Ed25519/ES256/ES256K verifiers (their dispatch on input.alg is audited)',
                    'the multibase Base64Url engine itself (third-party; that the library reaches it, and only it, is audited)']
    ctx.assumptions.append('callees not inlined are uninterpreted functions of their arguments; pure callees are functionally consistent')
    guarded(ctx, 'jws binding audit', 'M', lambda: run(ctx, prog))
    guarded(ctx, 'base64url codec binding', 'M', lambda: codec_binding(ctx, prog))
    guarded(ctx, 'algorithm names', 'M', lambda: alg_names(ctx, prog))
    guarded(ctx, 'verifier dispatch', 'M', lambda: verifier_dispatch(ctx))
    # the document-level entry point hands back what the item verification produced (claims, headers) - C03's obligation, re-used
    import c03

    def document_entry():
        prog2, info2 = load(c03.CRATES, src_only=c03.SRC)
        c03.run(ctx, prog2, only=r'^verify_jws/')
    guarded(ctx, 'CoreDocument::verify_jws (shared with C03)', 'M', document_entry)
    guarded(ctx, 'scheme verifiers', 'M', lambda: scheme_verifiers(ctx))
