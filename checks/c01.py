"""C01 - JWS verification binds the signature to exactly the bytes received.

Engine M (binding audit) over decode_compact/flattened/general, expand_payload, decode_signature, DecodedHeaders,
JwsValidationItem::verify, Jwk::check_alg;  engine K for create_message / base64url injectivity (thorough).
"""
import re
import z3
from core import *
from execu import Exec, State, Refuse, VOver
from values import *
from audit import *
from loader import load

CRATES = ['identity_jose']
REPLAY = {'scenario': 'jws_binding'}


def fidx(prog, struct, name):
    fs = prog.structs.get(struct)
    if not fs or name not in fs:
        raise Refuse('struct %s has no field %s in source (%s)' % (struct, name, fs))
    return fs.index(name)


def is_field_of(t, leaf, chain):
    """t is (after stripping wrappers) the projection leaf.chain ; chain = [(variant|'' , idx), ...]"""
    fp = field_path(strip(t))
    if fp is None:
        return False
    l, path = fp
    return l == leaf and [(v or '', i) for v, i in path] == [(v or '', i) for v, i in chain]


def run(ctx, prog):
    A = Auditor(ctx, prog)
    S = lambda name: fidx(prog, 'JwsSignature', name)   # noqa
    I = lambda name: fidx(prog, 'JwsValidationItem', name)   # noqa

    # ------------------------------------------------------------------------------------------------ decode_signature
    f = prog.one(r'decoder::<impl at [^>]*>::decode_signature$')
    paths, ex = A.paths(f)
    okp = [p for p in paths if p.kind == 'return' and p.is_ok()]
    if not okp:
        raise Refuse('decode_signature has no Ok path')
    prot = [('', S('protected')), ('Some', 0)]
    sig = [('', S('signature'))]
    hdr = [('', S('header'))]

    def item_field(p, name):
        it = p.payload()
        if not (isinstance(it, VAgg) and len(it.fields) == 4):
            raise Refuse('decode_signature returns %r' % (it,))
        return p.term(it.fields[I(name)])

    def protected_header_term_ok(t):
        """t denotes the header parsed from the received protected segment (or nothing else)"""
        js = apps(t, r'decode_b64_json$')
        return bool(js) and all(is_field_of(j[2][0], 'jws_signature', prot) for j in js) and not mentions_field(t, 'jws_signature', hdr[0])

    def mentions_field(t, leaf, first):
        for s in subterms(t):
            fp = field_path(s) if isinstance(s, tuple) and s and s[0] == 'field' else None
            if fp and fp[0] == leaf and fp[1] and (fp[1][0][0] or '', fp[1][0][1]) == first:
                return True
        return False

    def r_signing_input(p):
        t = strip(item_field(p, 'signing_input'))
        if not (isinstance(t, tuple) and t[0] == 'app' and re.search(r'create_message$', t[1]) and len(t[2]) == 2):
            return 'signing input is not create_message(..): %s' % term_str(t)[:200]
        a0, a1 = strip(t[2][0]), strip(t[2][1])
        if not (isinstance(a1, tuple) and a1 == ('leaf', 'payload')):
            return 'signing input payload part is not the received payload: %s' % term_str(a1)[:200]
        if is_field_of(a0, 'jws_signature', prot):
            return None
        # protected absent: empty default
        if p.took(('field', ('leaf', 'jws_signature'), S('protected'), ''), 'None') and not mentions(a0, r'jws_signature|payload'):
            return None
        return 'signing input header part is not the received protected segment: %s' % term_str(a0)[:200]
    A.require('decode_signature/signing-input=received-protected.payload', okp, r_signing_input, replay=REPLAY)

    def r_signature(p):
        t = strip(item_field(p, 'decoded_signature'))
        if isinstance(t, tuple) and t[0] == 'field' and t[3] == 'Ok':
            a = t[1]
            if isinstance(a, tuple) and a[0] == 'app' and re.search(r'decode_b64$', a[1]) and is_field_of(a[2][0], 'jws_signature', sig):
                return None
        return 'decoded signature is not b64url-decode(received signature): %s' % term_str(t)[:200]
    A.require('decode_signature/signature=decode(received-signature)', okp, r_signature, replay=REPLAY)

    def r_claims(p):
        it = p.payload()
        c = it.fields[I('claims')]
        if not isinstance(c, VAgg) or c.variant not in ('Owned', 'Borrowed'):
            return 'claims is not a Cow with a definite variant: %r' % (c,)
        inner = strip(p.term(c.fields[0]))
        b64calls = p.find_calls(r'JwsHeader::b64$')
        flags = [bc for bc in b64calls if protected_header_term_ok(bc.args[0])]
        foreign = [bc for bc in b64calls if not protected_header_term_ok(bc.args[0])]
        if foreign:
            return 'b64 read from something that is not the parsed protected header: %s' % term_str(foreign[0].args[0])[:200]
        prot_absent = p.took(('field', ('leaf', 'jws_signature'), S('protected'), ''), 'None')
        if c.variant == 'Borrowed':
            if inner != ('leaf', 'payload'):
                return 'unencoded claims are not the received payload: %s' % term_str(inner)[:160]
            for bc in flags:
                if p.took(bc, 'Some') and p.took(('field', bc.ret, 0, 'Some'), 'false'):
                    return None
            return 'payload used unencoded although protected b64 is not Some(false)'
        # Owned: must be decode_b64(payload).Ok and the flag must not be Some(false)
        ok = (isinstance(inner, tuple) and inner[0] == 'field' and inner[3] == 'Ok' and isinstance(inner[1], tuple)
              and inner[1][0] == 'app' and re.search(r'decode_b64$', inner[1][1]) and strip(inner[1][2][0]) == ('leaf', 'payload'))
        if not ok:
            return 'decoded claims are not b64url-decode(received payload): %s' % term_str(inner)[:200]
        for bc in flags:
            if p.took(bc, 'Some') and p.took(('field', bc.ret, 0, 'Some'), 'false'):
                return 'payload was base64-decoded although protected b64=false'
        if not flags and not prot_absent:
            return 'b64 of the protected header never consulted'
        return None
    A.require('decode_signature/claims=decode(payload)-unless-protected-b64-false', okp, r_claims, replay=REPLAY)

    def r_validated(p):
        for c in p.find_calls(r'validate_jws_headers$'):
            if not p.took(c, 'Ok'):
                continue
            a0, a1 = c.args
            a0_ok = protected_header_term_ok(a0) or (p.took(('field', ('leaf', 'jws_signature'), S('protected'), ''), 'None') and not mentions(a0, 'jws_signature'))
            a1_ok = (mentions_field(a1, 'jws_signature', hdr[0]) and not apps(a1, r'decode_b64_json$')) or \
                (p.took(('field', ('leaf', 'jws_signature'), S('header'), ''), 'None') and not mentions(a1, 'jws_signature'))
            if a0_ok and a1_ok:
                return None
        return 'accepted without validate_jws_headers(protected, unprotected) returning Ok'
    A.require('decode_signature/header-policy-enforced', okp, r_validated, replay=REPLAY)

    def r_headers(p):
        t = strip(item_field(p, 'headers'))
        if isinstance(t, tuple) and t[0] == 'field' and t[3] == 'Ok' and isinstance(t[1], tuple) and t[1][0] == 'app' \
                and re.search(r'DecodedHeaders::new$', t[1][1]):
            a0, a1 = t[1][2]
            if (protected_header_term_ok(a0) or not mentions(a0, 'jws_signature') or is_field_of(a0, 'jws_signature', [('', S('protected'))]) is False) \
                    and mentions_field(a1, 'jws_signature', hdr[0]) and not mentions_field(a0, 'jws_signature', hdr[0]):
                return None
        return 'item headers are not DecodedHeaders::new(parsed protected, received unprotected): %s' % term_str(t)[:200]
    A.require('decode_signature/headers-kept-apart', okp, r_headers, replay=REPLAY)
    A.no_panic('decode_signature/no-panic', paths, replay=REPLAY)

    # ---------------------------------------------------------------------------------------------------- expand_payload
    f = prog.one(r'decoder::<impl at [^>]*>::expand_payload$')
    paths, ex = A.paths(f)

    def r_expand(p):
        if p.kind != 'return':
            return 'panic ' + p.msg
        filt = p.find_calls(r'filter_non_empty_bytes$')
        if len(filt) != 1 or strip(filt[0].args[0]) != ('leaf', 'parsed_payload'):
            return 'attached payload not filtered for emptiness'
        det_some = p.took(('leaf', 'detached_payload'), 'Some')
        det_none = p.took(('leaf', 'detached_payload'), 'None')
        att_some = p.took(filt[0], 'Some')
        att_none = p.took(filt[0], 'None')
        if p.is_ok():
            t = strip(p.term(p.payload()))
            if det_some and att_none and is_field_of(t, 'detached_payload', [('Some', 0)]):
                return None
            if det_none and att_some and t == ('field', filt[0].ret, 0, 'Some'):
                return None
            return 'payload accepted without exactly one source: %s' % term_str(t)[:160]
        if (det_some and att_some) or (det_none and att_none):
            return None
        return 'rejected although exactly one payload source is present'
    A.require('expand_payload/exactly-one-source', paths, r_expand, replay=REPLAY)

    # ------------------------------------------------------------------------------------------- filter_non_empty_bytes
    # (iterator combinators; the emptiness filter itself is a closure)
    cl = [g for g in prog.funcs if re.search(r'filter_non_empty_bytes::\{closure#0\}$', g.name)]
    if len(cl) != 1:
        raise Refuse('filter_non_empty_bytes closure not found')
    paths, ex = A.paths(cl[0])

    def r_filter(p):
        if p.kind != 'return':
            return 'panic ' + p.msg
        emp = p.find_calls(r'is_empty$')
        if len(emp) == 1 and isinstance(p.val, VBool):
            b = ex.sym_bool(emp[0].ret).e
            if p.implies(p.val.e == z3.Not(b)):
                return None
        return 'filter closure is not `!value.is_empty()`'
    A.require('filter_non_empty_bytes/keeps-exactly-non-empty', paths, r_filter, replay=REPLAY)

    # ------------------------------------------------------------------------------------ compact / flattened / general
    f = prog.one(r'decoder::<impl at [^>]*>::decode_compact_serialization$')
    paths, ex = A.paths(f)
    okc = [p for p in paths if p.kind == 'return' and not (isinstance(p.val, VAgg) and p.val.variant == 'Err')]

    def r_compact(p):
        t = p.term()
        ds = apps(t, r'decode_signature$')
        if len(ds) != 1 or strip(t) != ds[0]:
            return 'compact decode does not end in decode_signature: %s' % term_str(t)[:160]
        _, payload_t, sig_t = ds[0][2]
        nexts = [c for c in p.find_calls(r'Split<.*Iterator>::next$')]
        if len(nexts) != 4:
            return 'expected exactly four segment reads, saw %d' % len(nexts)
        if not (p.took(nexts[0], 'Some') and p.took(nexts[1], 'Some') and p.took(nexts[2], 'Some') and p.took(nexts[3], 'None')):
            return 'accepted without exactly three segments'
        sp = apps(p.term(nexts[0].argvals[0]), r'::split$')
        if not sp or strip(sp[0][2][0]) != ('leaf', 'jws_bytes'):
            return 'segments are not split from the received bytes'
        seg = [('field', n.ret, 0, 'Some') for n in nexts[:3]]
        if not (isinstance(sig_t, tuple) and sig_t[0] == 'agg' and len(sig_t[3]) == 3):
            return 'signature record is not built field-wise: %s' % term_str(sig_t)[:160]
        h, pr, sg = sig_t[3][S('header')], sig_t[3][S('protected')], sig_t[3][S('signature')]
        if not (h[0] == 'agg' and h[2] == 'None'):
            return 'compact form must not carry an unprotected header'

        def utf8_of(x, s):
            x = strip(x)
            if x[0] == 'agg' and x[2] == 'Some':
                x = strip(x[3][0])
            return (x[0] == 'field' and x[3] == 'Ok' and x[1][0] == 'app' and re.search(r'parse_utf8$', x[1][1])
                    and strip(x[1][2][0]) == s)
        if not utf8_of(pr, seg[0]):
            return 'protected string is not segment 1 as received: %s' % term_str(pr)[:160]
        if not utf8_of(sg, seg[2]):
            return 'signature string is not segment 3 as received: %s' % term_str(sg)[:160]
        pt = strip(payload_t)
        if not (pt[0] == 'field' and pt[3] == 'Ok' and pt[1][0] == 'app' and re.search(r'expand_payload$', pt[1][1])):
            return 'payload does not come from expand_payload'
        d, a = pt[1][2]
        a = strip(a)
        if strip(d) != ('leaf', 'detached_payload') or not (a[0] == 'agg' and a[2] == 'Some' and strip(a[3][0]) == seg[1]):
            return 'expand_payload not called with (detached, segment 2)'
        return None
    A.require('decode_compact/three-segments-as-received', okc, r_compact, replay=REPLAY)
    A.no_panic('decode_compact/no-panic', paths, replay=REPLAY)

    spl = [g for g in prog.funcs if re.search(r'decode_compact_serialization::\{closure#0\}$', g.name)]
    if len(spl) != 1:
        raise Refuse('segment separator closure not found')
    st = State()
    b = z3.BitVec('byte', 8)
    st.mem['b'] = VInt(b, 8)
    paths, ex = A.paths(spl[0], args=[VAgg('closure', None, []), VRef('b')], state=st)
    A.require('decode_compact/separator-is-dot', paths,
              lambda p: None if (p.kind == 'return' and isinstance(p.val, VBool) and p.implies(p.val.e == (b == 46))) else 'separator closure is not `byte == b\'.\'`',
              replay=REPLAY)

    for which, struct in (('flattened', 'Flatten'), ('general', 'General')):
        f = prog.one(r'decoder::<impl at [^>]*>::decode_%s_serialization$' % which)
        paths, ex = A.paths(f)
        okf = [p for p in paths if p.kind == 'return' and not (isinstance(p.val, VAgg) and p.val.variant == 'Err')]

        def r_json(p, which=which, struct=struct):
            fs = p.find_calls(r'(^|::)from_slice$')
            if len(fs) != 1 or strip(fs[0].args[0]) != ('leaf', 'jws_bytes') or not p.took(fs[0], 'Ok'):
                return 'envelope not parsed from the received bytes'
            data = ('field', fs[0].ret, 0, 'Ok')
            eps = [c for c in p.find_calls(r'expand_payload$') if p.took(c, 'Ok')]
            if len(eps) != 1:
                return 'payload not taken through expand_payload'
            d, a = eps[0].args
            pi = fidx(prog, struct, 'payload')
            if strip(d) != ('leaf', 'detached_payload') or not is_sub(strip(a), ('field', data, pi, '')):
                return 'expand_payload not called with (detached, envelope payload): %s' % term_str(a)[:160]
            payload_t = ('field', eps[0].ret, 0, 'Ok')
            t = p.term()
            if which == 'flattened':
                ds = apps(t, r'decode_signature$')
                si = fidx(prog, struct, 'signature')
                if len(ds) != 1 or strip(t) != ds[0] or strip(ds[0][2][1]) != payload_t or strip(ds[0][2][2]) != ('field', data, si, ''):
                    return 'flattened decode does not end in decode_signature(payload, envelope signature)'
                return None
            it = p.payload()
            if not (isinstance(it, VAgg) and len(it.fields) == 3):
                return 'general decode does not return the validation iterator'
            ii = prog.structs['JwsValidationIter']
            pay = strip(p.term(it.fields[ii.index('payload')]))
            sigs = p.term(it.fields[ii.index('signatures')])
            si = fidx(prog, struct, 'signatures')
            if pay != payload_t or not is_sub(sigs, ('field', data, si, '')):
                return 'iterator does not carry (payload, envelope signatures)'
            return None
        A.require('decode_%s/envelope-fields-as-received' % which, okf, r_json, replay=REPLAY)

    cl = [g for g in prog.funcs if re.search(r'decoder::<impl at [^>]*>::next::\{closure#0\}$', g.name)]
    if len(cl) != 1:
        raise Refuse('general iterator closure not found')
    paths, ex = A.paths(cl[0])

    def r_iter(p):
        # rustc prints only the first capture of a disjoint-capture closure; the captured places are identified
        # through the closure's debug info (`self__payload => (*(_1.N: &[u8]))`)
        t = strip(p.term())
        raw = cl[0].debug_raw.get('self__payload', '')
        m = re.search(r'_1\.(\d+):', raw)
        if t[0] == 'app' and re.search(r'decode_signature$', t[1]) and m:
            pay, sg = strip(t[2][1]), strip(t[2][2])
            fp = field_path(pay)
            if sg == ('leaf', 'signature') and fp and fp[1] and fp[1][-1][1] == int(m.group(1)):
                return None
        return 'general iterator does not decode each signature over the shared payload: %s' % term_str(t)[:200]
    A.require('decode_general/each-signature-over-shared-payload', [p for p in paths if p.kind == 'return'], r_iter, replay=REPLAY)

    # ----------------------------------------------------------------------------------------------------------- verify
    f = prog.one(r'decoder::<impl at [^>]*>::verify$')
    paths, ex = A.paths(f)
    okv = [p for p in paths if p.kind == 'return' and p.is_ok()]
    if not okv:
        raise Refuse('verify has no Ok path')
    hi = I('headers')

    def prot_of(p):
        """term of the protected header on this path (Protected.0 / Both.protected)"""
        dh = ('field', ('leaf', 'self'), hi, '')
        out = []
        if p.took(dh, 'Continue') or True:
            tabs = prog.enums.get('DecodedHeaders') or {}
            d = ex.discr_var(dh)
            for vname, idx in tabs.items():
                if p.implies(d == z3.BitVecVal(idx, 64)):
                    out.append(vname)
        return out

    def r_verify(p):
        vs = [c for c in p.find_calls(r'JwsVerifier>::verify$') if p.took(c, 'Ok')]
        if len(vs) != 1:
            return 'reported verified without exactly one successful verifier call'
        _, inp, key = vs[0].args
        if strip(key) != ('leaf', 'public_key'):
            return 'verifier not given the caller\'s key'
        if not (inp[0] == 'agg' and len(inp[3]) == 3):
            return 'verification input not built field-wise'
        vi = prog.structs['VerificationInput']
        alg, si, ds = inp[3][vi.index('alg')], strip(inp[3][vi.index('signing_input')]), strip(inp[3][vi.index('decoded_signature')])
        if si != ('field', ('leaf', 'self'), I('signing_input'), '') or ds != ('field', ('leaf', 'self'), I('decoded_signature'), ''):
            return 'verifier not given the item\'s signing input / decoded signature'
        variants = prot_of(p)
        if len(variants) != 1 or variants[0] == 'Unprotected':
            return 'verified without a protected header (%s)' % variants
        algc = apps(alg, r'JwsHeader::alg$')
        if len(algc) != 1 or not p.took(algc[0], 'Some'):
            return 'alg handed to the verifier is not the protected header\'s alg'
        fp = field_path(algc[0][2][0])
        both = prog.structs.get('Both') or ['protected', 'unprotected']
        want = [('', hi), (variants[0], 0)]
        if not fp or fp[0] != 'self' or [(v or '', i) for v, i in fp[1]] != want:
            return 'alg read from %s, not from the protected header' % term_str(algc[0][2][0])
        cas = [c for c in p.find_calls(r'Jwk::check_alg$') if p.took(c, 'Ok')]
        if not any(strip(c.args[0]) == ('leaf', 'public_key') and apps(c.args[1], r'JwsHeader::alg$') == algc for c in cas):
            return 'key.alg not checked against the protected alg'
        out = p.payload()
        dj = prog.structs['DecodedJws']
        claims = strip(p.term(out.fields[dj.index('claims')]))
        protected = strip(p.term(out.fields[dj.index('protected')]))
        if claims != ('field', ('leaf', 'self'), I('claims'), ''):
            return 'returned claims are not the item\'s claims'
        if field_path(protected) != ('self', want):
            return 'returned protected header is not the verified one'
        return None
    A.require('verify/verifier-gets-item-bytes-protected-alg-caller-key', okv, r_verify, replay=REPLAY)
    A.no_panic('verify/no-panic', paths, replay=REPLAY)

    # --------------------------------------------------------------------------- DecodedHeaders::new + accessors (kernel)
    f_new = prog.one(r'decoder::<impl at [^>]*>::new$', sig=r'JwsHeader>.*JwsHeader>.* -> .*DecodedHeaders')
    f_ph = prog.one(r'decoder::<impl at [^>]*>::protected_header$', sig=r'^&(\w+::)*DecodedHeaders')
    f_uh = prog.one(r'decoder::<impl at [^>]*>::unprotected_header$', sig=r'^&(\w+::)*DecodedHeaders')
    paths, ex = A.paths(f_new, inline=r'protected_header$|unprotected_header$')

    def r_dh(p):
        if p.kind != 'return':
            return 'panic'
        ps, us = p.took(('leaf', 'protected'), 'Some'), p.took(('leaf', 'unprotected'), 'Some')
        pn, un = p.took(('leaf', 'protected'), 'None'), p.took(('leaf', 'unprotected'), 'None')
        if pn and un:
            return None if p.is_err() else 'no header at all accepted'
        if not p.is_ok():
            return 'headers rejected although one is present'
        st = p.st.fork()
        st.mem['dh'] = p.payload()
        for fn, present, leafname in ((f_ph, ps, 'protected'), (f_uh, us, 'unprotected')):
            outs = [o for o in ex.run(fn, [VRef('dh')], st.fork()) if o.kind == 'return']
            if len(outs) != 1:
                return 'accessor has %d outcomes' % len(outs)
            v = outs[0].val
            if not isinstance(v, VAgg):
                return 'accessor result %r' % (v,)
            if present != (v.variant == 'Some'):
                return '%s_header() presence differs from what was decoded' % leafname
            if present:
                t = strip(ex.to_term(outs[0].st, v.fields[0]))
                if not is_field_of(t, leafname, [('Some', 0)]):
                    return '%s_header() returns %s' % (leafname, term_str(t)[:120])
        return None
    A.require('DecodedHeaders/new-and-accessors-keep-protected-and-unprotected-apart', paths, r_dh, replay=REPLAY)

    # -------------------------------------------------------------------------------------------------- Jwk::check_alg
    f = prog.one(r'jwk::key::<impl at [^>]*>::check_alg$')
    paths, ex = A.paths(f)

    def r_check_alg(p):
        if p.kind != 'return':
            return 'panic ' + p.msg
        algs = p.find_calls(r'Jwk::alg$')
        # Ok <=> key has no alg, or key alg == expected
        eqs = p.find_calls(r'PartialEq.*>::(eq|ne)$')
        key_alg_none = any(p.took(c, 'None') for c in algs) or p.took(('field', ('deref', ('leaf', 'self')), fidx(prog, 'Jwk', 'alg'), ''), 'None')
        if p.is_ok():
            if key_alg_none:
                return None
            for c in eqs:
                names = leaves(c.args)
                if 'expected' in names and ('self' in names):
                    want = 'true' if c.name.endswith('::eq') else 'false'
                    if p.took(c.ret, want):
                        return None
            return 'check_alg accepts without comparing the key alg with the expected alg'
        if key_alg_none:
            return 'key without alg rejected'
        for c in eqs:
            names = leaves(c.args)
            if 'expected' in names and 'self' in names:
                want = 'false' if c.name.endswith('::eq') else 'true'
                if p.took(c.ret, want):
                    return None
        return 'check_alg rejects although the algorithms compare equal'
    A.require('check_alg/ok-iff-unpinned-or-equal', paths, r_check_alg, replay=REPLAY)


def is_sub(t, want):
    return any(s == want for s in subterms(t))


def main(ctx):
    prog, info = load(CRATES)
    ctx.extra['mir'] = info
    ctx.bounds.append('audit: all paths of the listed acyclic orchestrators, callee results unconstrained (uninterpreted)')
    ctx.outside += ['serde parsing of headers/envelopes', 'Ed25519/ES256/ES256K verifiers (cryptography)',
                    'that base64url decoding and create_message compute the right bytes is the K part (thorough tier)']
    ctx.assumptions.append('callees not inlined are uninterpreted functions of their arguments; pure callees are functionally consistent')
    guarded(ctx, 'jws binding audit', 'M', lambda: run(ctx, prog))
