"""C18 - JWK public projection, thumbprint input and key-type coherence never leak keys (engine M kernels + audits)."""
import re
import z3
from core import *
from execu import Exec, State, Refuse
from values import *
from audit import *
from loader import load
import models
import vc

CRATES = ['identity_jose', 'identity_verification']
REPLAY = {'scenario': 'jwk', 'cex': {'only': '[public]'}}


def R(tag):
    return {'scenario': 'jwk', 'cex': {'only': tag}}
PRIVATE = {'JwkParamsEc': ['d'], 'JwkParamsRsa': ['d', 'p', 'q', 'dp', 'dq', 'qi', 'oth'], 'JwkParamsOkp': ['d'], 'JwkParamsOct': ['k']}
THUMB = {'Ec': ['crv', 'kty', 'x', 'y'], 'Rsa': ['e', 'kty', 'n'], 'Oct': ['k', 'kty'], 'Okp': ['crv', 'kty', 'x']}   # RFC 7638 3.2, RFC 8037 2


def is_sub(t, want):
    return any(s == want for s in subterms(t))


def decode_template(b):
    """rustc's packed format_args template: [len][literal] ... 0xC0 = next argument ... 0x00 end"""
    out, i = [], 0
    while i < len(b):
        c = b[i]
        if c == 0:
            break
        if c >= 0x80:
            out.append(None)
            i += 1
        else:
            out.append(bytes(b[i + 1:i + 1 + c]))
            i += 1 + c
    return out


def run(ctx, prog):
    A = Auditor(ctx, prog)
    S = prog.structs
    KP = r'key_params::<impl at [^>]*>::'

    # ---- per-type to_public / is_public ----------------------------------------------------------------------------
    for ty, priv in PRIVATE.items():
        fields = S[ty]
        if ty != 'JwkParamsOct':
            f = prog.one(KP + r'to_public$', sig=r'^&(\w+::)*%s -> ' % ty)
            paths, ex = A.paths(f)

            def r_tp(p, fields=fields, priv=priv, ty=ty):
                if p.kind != 'return' or not (isinstance(p.val, VAgg) and len(p.val.fields) == len(fields)):
                    return 'not a field-wise construction'
                for i, nm in enumerate(fields):
                    v = p.val.fields[i]
                    if nm in priv:
                        if not (isinstance(v, VAgg) and v.variant == 'None'):
                            return 'public projection keeps private member %s' % nm
                    else:
                        t = strip(p.term(v))
                        if field_path(t) != ('self', [('', i)]):
                            return 'public member %s is not carried over unchanged' % nm
                return None
            A.require('%s::to_public/drops-exactly-the-private-members' % ty, paths, r_tp, replay=REPLAY)
        f = prog.one(KP + r'is_public$', sig=r'^&(\w+::)*%s -> ' % ty)
        paths, ex = A.paths(f)

        def r_ip(p, fields=fields, priv=priv, ty=ty):
            if p.kind != 'return' or not isinstance(p.val, VBool):
                return 'not boolean'
            none_all = z3.And(*[ex.discr_var(('field', ('deref', ('leaf', 'self')), fields.index(nm), '')) == 0 for nm in priv]) \
                if ty != 'JwkParamsOct' else z3.BoolVal(False)
            return None if p.implies(p.val.e == none_all) else 'is_public differs from "no private member present"'
        A.require('%s::is_public/iff-no-private-member' % ty, paths, r_ip, replay=REPLAY)

    # ---- JwkParams dispatch --------------------------------------------------------------------------------------------
    variants = prog.enums['JwkParams']
    f = prog.one(KP + r'to_public$', sig=r'^&(\w+::)*JwkParams -> ')
    paths, ex = A.paths(f)

    def r_dtp(p):
        if p.kind != 'return':
            return 'panic ' + p.msg
        for vn, idx in variants.items():
            if p.implies(ex.discr_var(('deref', ('leaf', 'self'))) == idx):
                if vn == 'Oct':
                    return None if (isinstance(p.val, VAgg) and p.val.variant == 'None') else 'symmetric key has a public projection'
                if not (isinstance(p.val, VAgg) and p.val.variant == 'Some'):
                    return 'no public projection for %s' % vn
                inner = p.val.fields[0]
                if not (isinstance(inner, VAgg) and str(inner.variant) == vn):
                    return 'projection of %s changes the key family' % vn
                t = strip(p.term(inner.fields[0]))
                if not (t[0] == 'app' and re.search(r'JwkParams%s::to_public$' % vn, t[1]) and field_path(t[2][0]) == ('self', [(vn, 0)])):
                    return 'projection of %s is not its own to_public' % vn
                return None
        return 'variant undetermined'
    A.require('JwkParams::to_public/per-family-projection-keeps-the-family', paths, r_dtp, replay=REPLAY)

    f = prog.one(KP + r'is_public$', sig=r'^&(\w+::)*JwkParams -> ')
    paths, ex = A.paths(f)

    def r_dip(p):
        t = strip(p.term())
        for vn, idx in variants.items():
            if p.implies(ex.discr_var(('deref', ('leaf', 'self'))) == idx):
                cs = p.find_calls(r'JwkParams%s::is_public$' % vn)
                if len(cs) == 1 and field_path(cs[0].args[0]) == ('self', [(vn, 0)]) and isinstance(p.val, VBool) and p.implies(p.val.e == ex.sym_bool(cs[0].ret).e):
                    return None
                return 'is_public of %s not delegated to its own parameters' % vn
        return 'variant undetermined'
    A.require('JwkParams::is_public/delegates-per-family', paths, r_dip, replay=REPLAY)

    # kty <-> family coherence
    kt = prog.enums['JwkType']
    f = prog.one(KP + r'kty$', sig=r'^&(\w+::)*JwkParams -> ')
    paths, ex = A.paths(f, inline=KP + r'kty$')
    A.require('JwkParams::kty/names-the-family-carried', paths,
              lambda p: None if (p.kind == 'return' and isinstance(p.val, VAgg) and any(
                  p.implies(ex.discr_var(('deref', ('leaf', 'self'))) == variants[vn]) and str(p.val.variant) == vn for vn in variants))
              else 'kty() does not name the parameter family', replay=REPLAY)
    f = prog.one(KP + r'new$', sig=r'JwkType -> (\w+::)*JwkParams')
    paths, ex = A.paths(f)
    A.require('JwkParams::new/family-of-the-requested-type', paths,
              lambda p: None if (p.kind == 'return' and isinstance(p.val, VAgg) and any(
                  p.implies(ex.discr_var(('leaf', 'kty')) == kt[vn]) and str(p.val.variant) == vn for vn in variants))
              else 'JwkParams::new(kty) builds another family', replay=REPLAY)

    # ---- Jwk level ---------------------------------------------------------------------------------------------------------
    JK = S['Jwk']
    K = r'jwk::key::<impl at [^>]*>::'
    f = prog.one(K + r'from_params$')
    paths, ex = A.paths(f)

    def r_fp(p):
        if p.kind != 'return' or not isinstance(p.val, VAgg):
            return 'not a construction'
        kty = strip(p.term(p.val.fields[JK.index('kty')]))
        par = strip(p.term(p.val.fields[JK.index('params')]))
        if not (kty[0] == 'app' and re.search(r'JwkParams::kty$', kty[1]) and strip(kty[2][0]) == par):
            return 'kty is not the family of the parameters stored'
        return None if mentions(par, r'^params$') else 'stored parameters are not the argument'
    A.require('Jwk::from_params/kty=params.kty()', paths, r_fp, replay=R('[coherence]'))

    # conversion from the json-proof-token key type: the only other place that writes `kty` next to `params` field by field
    fj = prog.find(r'jwk_ext::<impl at [^>]*>::try_from$')
    fj = [g for g in fj if 'jsonprooftoken' in ' '.join(t for _, t in g.args) or 'JwkExt' in ' '.join(t for _, t in g.args)]
    if len(fj) == 1:
        paths, ex = A.paths(fj[0], inline=r'jwk_ext::<impl at [^>]*>::try_from::\{closure')
        okj = [p for p in paths if p.kind == 'return' and p.is_ok()]

        def r_jpt(p):
            j = p.payload()
            if not (isinstance(j, VAgg) and len(j.fields) == len(JK)):
                return 'key not built field-wise'
            kty, par = j.fields[JK.index('kty')], j.fields[JK.index('params')]
            if not (isinstance(par, VAgg) and par.variant in ('Ec', 'Rsa', 'Okp', 'Oct')):
                return 'parameters are not a literal family'
            if not (isinstance(kty, VAgg) and str(kty.variant) == str(par.variant)):
                return 'declared kty (%s) is not the family of the parameters built (%s): taken from somewhere else' % (term_str(p.term(kty))[:60], par.variant)
            return None
        if okj:
            A.require('Jwk::try_from<JptJwk>/kty-is-the-family-of-the-params-built', okj, r_jpt, replay=R('[coherence]'))

    f = prog.one(K + r'set_params$')
    paths, ex = A.paths(f)

    def r_sp(p):
        if p.kind != 'return':
            return 'panic ' + p.msg
        sets = p.find_calls(r'set_params_unchecked$')
        kd = ex.discr_var(('field', ('deref', ('leaf', 'self')), JK.index('kty'), ''))
        if p.is_ok():
            if len(sets) != 1:
                return 'parameters not stored exactly once'
            val = sets[0].argvals[1]
            into = [c for c in p.find_calls(r'Into<.*JwkParams>>::into$')]
            src = into[0].ret if into else None
            for vn in variants:
                if p.implies(kd == kt[vn]):
                    dv = ex.discr_var(src) if src else None
                    return None if (dv is not None and p.implies(dv == variants[vn])) else 'parameters of another family accepted for kty %s' % vn
            return 'kty undetermined on an accepting path'
        return 'rejected set_params modified the key' if sets else None
    A.require('Jwk::set_params/accepts-only-the-declared-family', paths, r_sp, replay=R('[coherence]'))

    f = prog.one(K + r'set_kty$')
    paths, ex = A.paths(f)

    def r_sk(p):
        if p.kind != 'return':
            return 'panic ' + p.msg
        obj = p.st.mem.get('sym:self')
        from execu import VOver
        if not isinstance(obj, VOver):
            return 'nothing stored'
        kty = obj.over.get((None, JK.index('kty')))
        par = obj.over.get((None, JK.index('params')))
        if kty is None or par is None:
            return 'set_kty does not reset the parameters together with the type'
        pt = strip(p.term(par))
        return None if (pt[0] == 'app' and re.search(r'JwkParams::new$', pt[1]) and strip(pt[2][0]) == strip(p.term(kty))) \
            else 'parameters after set_kty are not JwkParams::new(kty)'
    A.require('Jwk::set_kty/resets-params-to-the-new-family', paths, r_sk, replay=R('[coherence]'))

    f = prog.one(K + r'is_public$')
    paths, ex = A.paths(f)
    A.require('Jwk::is_public/=params.is_public', paths,
              lambda p: None if (p.kind == 'return' and len(p.find_calls(r'JwkParams::is_public$')) == 1 and
                                 field_path(p.find_calls(r'JwkParams::is_public$')[0].args[0]) == ('self', [('', JK.index('params'))]) and
                                 isinstance(p.val, VBool) and p.implies(p.val.e == ex.sym_bool(p.find_calls(r'JwkParams::is_public$')[0].ret).e))
              else 'Jwk::is_public is not params.is_public()', replay=REPLAY)

    f = prog.one(K + r'to_public$')
    paths, ex = A.paths(f, inline=K + r'(use_|alg|kid|key_ops|params)$')

    def r_jtp(p):
        if p.kind != 'return':
            return 'panic ' + p.msg
        tp = [c for c in p.find_calls(r'JwkParams::to_public$')]
        if len(tp) != 1 or field_path(tp[0].args[0]) != ('self', [('', JK.index('params'))]):
            return 'projection not computed from this key\'s parameters'
        if p.took(tp[0], 'None'):
            return None if (isinstance(p.val, VAgg) and p.val.variant == 'None') else 'projection invented for a symmetric key'
        if not (isinstance(p.val, VAgg) and p.val.variant == 'Some'):
            return 'projection lost'
        fp_ = [c for c in p.find_calls(r'Jwk::from_params$')]
        if len(fp_) != 1 or not is_sub(fp_[0].args[0], ('field', tp[0].ret, 0, 'Some')):
            return 'public key not built from the projected parameters only'
        # nothing else of `self.params` may flow into the result
        for c in p.calls:
            if re.search(r'set_params|params_mut|set_params_unchecked', c.name):
                return 'parameters written after projection'
        return None
    A.require('Jwk::to_public/built-from-projected-params-only', paths, r_jtp, replay=REPLAY)

    # idempotence of to_public on key_ops: the mapping applied to a *public* key must fix every value that any mapping
    # of to_public can produce (the other carried members are copied).
    ops = prog.enums['JwkOperation']
    maps = {}     # 'pub' | 'priv' | 'any' -> closure name | 'identity'
    for p in paths:
        if p.kind != 'return' or not (isinstance(p.val, VAgg) and p.val.variant == 'Some'):
            continue
        mp = [c for c in p.calls if re.search(r'Iterator>::(map|copied|cloned)$', c.name) and mentions(c.args, r'^self$')]
        if not mp:
            continue
        which = 'identity'
        if mp[0].name.endswith('::map'):
            fv = mp[0].argvals[1]
            which = fv.name if isinstance(fv, VFn) else 'unknown'
        ipc = [c for c in p.find_calls(r'Jwk::is_public$|JwkParams::is_public$') if mentions(c.args, r'^self$')]
        cond = 'any'
        if ipc:
            cond = 'pub' if p.took(ipc[0].ret, 'true') else ('priv' if p.took(ipc[0].ret, 'false') else 'any')
        maps.setdefault(cond, set()).add(which)
    if not maps:
        raise Refuse('to_public never carries key_ops')
    ex = Exec(prog, models=models.MODELLED)

    def apply(which, op_val, st):
        if which == 'identity':
            return [(st, op_val)]
        cands = prog.closures.get(which)
        if not cands:
            raise Refuse('key_ops mapping %s not found' % which)
        st.mem['op%d' % next(ex.fresh)] = op_val
        cell = [k_ for k_ in st.mem if k_.startswith('op')][-1]
        outs = [o for o in ex.run(cands[0], [VAgg('closure', None, []), VRef(cell)], st) if o.kind == 'return']
        return [(o.st, o.val) for o in outs]
    goals = []
    pub_maps = maps.get('pub', set()) | maps.get('any', set())
    all_maps = set().union(*maps.values())
    if 'unknown' in all_maps:
        raise Refuse('key_ops mapped by a function value that is not a closure')
    for g1 in all_maps:
        for (s1, v1) in apply(g1, VSym(('leaf', 'op'), 'JwkOperation'), State()):
            for g2 in pub_maps:
                for (s2, v2) in apply(g2, v1, s1.fork()):
                    same = (isinstance(v1, VAgg) and isinstance(v2, VAgg) and str(v1.variant) == str(v2.variant)) or \
                        (isinstance(v1, VSym) and isinstance(v2, VSym) and v1.term == v2.term)
                    if not same:
                        goals.append(('projecting an already public key changes key_ops %s -> %s' % (getattr(v1, 'variant', v1), getattr(v2, 'variant', v2)), s2.pc))
    v = vc.check_formulas(goals or [('none', [z3.BoolVal(False)])])
    ctx.samples.append('key_ops mappings of to_public by key kind: %s' % {k_: sorted(x.split('/')[-1] for x in v_) for k_, v_ in maps.items()})
    name = 'Jwk::to_public/idempotent-on-key_ops'
    for fn_ in ex.encoded:
        ctx.functions.add(fn_)
    if v.status == 'unsat':
        ctx.add(Ob(name, 'M', HELD, solver_s=v.secs, queries=v.queries))
    elif v.status == 'sat':
        from replay import run_replay
        rep = {'scenario': 'jwk', 'cex': {'only': '[idempotent]'}}
        res = run_replay(rep)
        st_ = VIOLATED if res.get('reproduced') else INCONCLUSIVE
        ctx.add(Ob(name, 'M', st_, detail='%s; native: %s' % (v.model[0], res.get('detail', '')[:300]), replay=rep,
                   solver_s=v.secs, queries=v.queries))
    else:
        ctx.add(Ob(name, 'M', INCONCLUSIVE, detail=v.note))

    # ---- thumbprint input ----------------------------------------------------------------------------------------------
    f = prog.one(K + r'thumbprint_hash_input$')
    paths, ex = A.paths(f)
    pn = {'Ec': 'JwkParamsEc', 'Rsa': 'JwkParamsRsa', 'Oct': 'JwkParamsOct', 'Okp': 'JwkParamsOkp'}

    def r_th(p):
        if p.kind != 'return':
            return 'panic ' + p.msg
        an = [c for c in p.find_calls(r'Arguments::new$|Arguments::new_v1$')]
        if len(an) != 1:
            return 'hash input not produced by one format'
        tmpl = strip(an[0].args[0])
        if not (tmpl[0] == 'const' and isinstance(tmpl[1], bytes)):
            return 'format template not constant'
        pieces = decode_template(tmpl[1])
        args = an[0].args[1]
        sa_ = strip(args)
        if not (isinstance(sa_, tuple) and sa_[0] == 'agg'):
            return 'format arguments not an array'
        argl = list(sa_[3])
        pc_ = p.find_calls(r'Jwk::params$')
        fam = None
        for vn in variants:
            if pc_ and p.took(pc_[0].ret, 'Ok') is False and p.implies(ex.discr_var(('deref', pc_[0].ret)) == variants[vn]):
                fam = vn
        if fam is None:
            return 'key family undetermined'
        want = THUMB[fam]
        lit = b''.join(x if x is not None else b'\x00' for x in pieces)
        exp = b'{' + b','.join(b'"' + m.encode() + b'":"\x00"' for m in want) + b'}'
        if lit != exp:
            return 'thumbprint template for %s is %r, RFC 7638 requires members %s in this order' % (fam, lit, want)
        if len(argl) != len(want):
            return 'wrong number of members'
        fields = S[pn[fam]]
        for m, a in zip(want, argl):
            if m == 'kty':
                if not apps(a, r'JwkType::name$'):
                    return 'kty member is not the key type name'
                continue
            fp = field_path(strip(a[2][0]) if a[0] == 'app' else strip(a))
            t = a
            ok_ = any(isinstance(s, tuple) and s and s[0] == 'field' and s[2] == fields.index(m) and isinstance(s[1], tuple) and s[1][0] == 'field' and s[1][3] == fam
                      for s in subterms(t))
            if not ok_:
                return 'member %s of the %s thumbprint is not the %s parameter' % (m, fam, m)
        return None
    A.require('thumbprint_hash_input/required-members-only-in-lexicographic-order', paths, r_th, replay=R('[thumbprint]'))

    # ---- verification methods never embed private keys -------------------------------------------------------------------------
    f = prog.one(r'method::<impl at [^>]*>::from_builder$')
    paths, ex = A.paths(f, inline=r'from_builder::\{closure')
    okp = [p for p in paths if p.kind == 'return' and p.is_ok()]

    def r_fb(p):
        """an accepted builder either carries no JWK (the data variant was examined and is another one) or its JWK answered
        is_public() == true; `!is_private()` is not evidence (a partial RSA private set is neither public nor private)"""
        md = prog.enums.get('MethodData') or {}
        if any(p.took(c.ret, 'true') and 'builder' in term_str(c.args[0]) for c in p.find_calls(r'Jwk::is_public$')):
            return None
        di = prog.structs['MethodBuilder'].index('data')
        opt = ('field', ('leaf', 'builder'), di, '')
        d = ex.discr_var(('field', opt, 0, 'Some'))
        if 'PublicKeyJwk' in md and p.implies(d != z3.BitVecVal(md['PublicKeyJwk'], 64)):
            return None
        return 'method built without establishing that its JWK material is public (is_public() == true)'
    A.require('VerificationMethod::from_builder/rejects-private-jwk', okp, r_fb, replay=R('[method]'))


def main(ctx):
    prog, info = load(CRATES)
    ctx.extra['mir'] = info
    ctx.outside += ['serde untagged deserialisation of JwkParams (kty/params mismatch through JSON)', 'SHA-256 of the thumbprint input',
                    'generated key output (cryptography)', 'member *values* (strings are opaque)']
    guarded(ctx, 'jwk kernels and audits', 'M', lambda: run(ctx, prog))
    # "verification methods built through the library's constructors never contain private key members" also covers the did:jwk
    # expansion: the method comes from VerificationMethod::try_from(DIDJwk) -> new_from_jwk (guarded), never from a second route
    # (C20's obligations, re-used)
    import c20

    def jwk_expansion():
        prog2, info2 = load(c20.CRATES)
        c20.run(ctx, prog2, only=r'^CoreDocument::expand_did_jwk/|^VerificationMethod::try_from<DIDJwk>/')
    guarded(ctx, 'did:jwk expansion (shared with C20)', 'M', jwk_expansion)
