"""C07 - credential/presentation <-> JWT claims conversion is lossless and consistent (engine M).

Losslessness is decided as *wiring*: for every field of the credential (presentation) the location of the claims set
that `new` writes it to must be the location `try_into_*` reads it from, with inverse converters on the date members
(to_unix / from_unix - decided under C13) and Borrowed / into_owned elsewhere; duplicated members are omitted from vc/vp.
Consistency is a binding audit of check_consistency.
"""
import re
import z3
from core import *
from execu import Refuse
from values import *
from audit import *
from loader import load

CRATES = ['identity_credential']
SRC = ['identity_core']


def R(tag):
    return {'scenario': 'claims', 'cex': {'only': tag}}


def is_sub(t, want):
    return any(s == want for s in subterms(t))


def agg_walk(t, path=()):
    """yield (index path, term) for every node reachable through aggregate fields (Option::Some / Cow wrappers are transparent)"""
    yield path, t
    if isinstance(t, tuple) and t and t[0] == 'agg':
        transparent = t[2] in ('Some', 'Borrowed', 'Owned', 'One') and len(t[3]) == 1
        for i, x in enumerate(t[3]):
            yield from agg_walk(x, path if transparent else path + (i,))
    elif isinstance(t, tuple) and t and t[0] in ('ref', 'deref'):
        yield from agg_walk(t[1], path)


def proj_of(t, leaf):
    """index list of the projection of `leaf` that term t denotes (through identity wrappers / converters), else None"""
    t = strip(t)
    while isinstance(t, tuple) and t and t[0] == 'app' and len(t[2]) >= 1 and re.search(
            r'(Borrowed|into_owned|to_unix|from_unix|to_issuance_date|IssuanceDateClaims::new|Option<.*>::map|::map|Clone>::clone|transpose|map_err)$', t[1]):
        t = strip(t[2][0])
    if isinstance(t, tuple) and t and t[0] == 'field' and t[3] in ('Ok', 'Some') and isinstance(t[1], tuple) and t[1][0] == 'app':
        return proj_of(t[1], leaf)
    if isinstance(t, tuple) and t and t[0] == 'z3':
        m = re.search(r'v!.*?\((?:&\*?)*%s((?:\.[A-Za-z]*\.?\d+|\.\d+)+)' % leaf, str(t[1]))
        if m:
            return [int(x) for x in re.findall(r'(\d+)', m.group(1))]
        return None
    fp = field_path(t)
    if fp and fp[0] == leaf:
        return [i for _, i in fp[1]]
    return None


def is_sub_of(t, want):
    return any(x == want for x in subterms(t))


def option_fields(struct):
    """names of the Option-typed fields of a struct, read from /repo's source"""
    import glob
    import os
    out = []
    for path in glob.glob(os.path.join(REPO, 'identity_credential', 'src', '**', '*.rs'), recursive=True):
        src = open(path, encoding='utf-8').read()
        m = re.search(r'pub struct %s\b[^{]*\{(.*?)\n\}' % struct, src, re.S)
        if m:
            for fm in re.finditer(r'(?:pub(?:\([a-z]+\))? )?(\w+): Option<', m.group(1)):
                out.append(fm.group(1))
            break
    return out


def write_locations(claims_term, leaf):
    """{source index tuple: claims index path} for every part of `leaf` stored in the claims aggregate"""
    out = {}
    for path, t in agg_walk(claims_term):
        if isinstance(t, tuple) and t and t[0] == 'agg':
            continue
        pj = proj_of(t, leaf)
        if pj:
            out.setdefault(tuple(pj), path)
    return out


def run(ctx, prog, only=None):
    A = Auditor(ctx, prog, only=only)
    S = prog.structs

    for kind, src_leaf, Tsrc, Tclaims, Tinner, new_rx, new_sig, into_rx, dup_inner, opt_leaf in (
            ('credential', 'credential', 'Credential', 'CredentialJwtClaims', 'InnerCredential',
             r'credential::jwt_serialization::<impl at [^>]*>::new$', r'Credential<T>', r'::try_into_credential$',
             ['id', 'issuer', 'issuance_date', 'expiration_date'], None),
            ('presentation', 'presentation', 'Presentation', 'PresentationJwtClaims', 'InnerPresentation',
             r'presentation::jwt_serialization::<impl at [^>]*>::new$', r'Presentation<', r'::try_into_presentation$',
             ['id', 'holder'], 'options')):
        SF, CF, IF = S[Tsrc], S[Tclaims], S[Tinner]
        inner_name = 'vc' if kind == 'credential' else 'vp'
        f_new = prog.one(new_rx, sig=new_sig)
        paths, ex = A.paths(f_new, inline=r'jwt_serialization::<impl at [^>]*>::new($|::\{closure)')
        okn = [p for p in paths if p.kind == 'return' and p.is_ok()]
        if not okn:
            raise Refuse('%s claims constructor has no Ok path' % kind)
        wmaps = []

        def r_new(p, CF=CF, IF=IF, dup_inner=dup_inner, inner_name=inner_name, src_leaf=src_leaf):
            c = p.payload()
            if not (isinstance(c, VAgg) and len(c.fields) == len(CF)):
                return 'claims not built field-wise'
            inner = c.fields[CF.index(inner_name)]
            if not (isinstance(inner, VAgg) and len(inner.fields) == len(IF)):
                return 'inner %s not built field-wise' % inner_name
            for d in dup_inner:
                v = inner.fields[IF.index(d)]
                if not (isinstance(v, VAgg) and v.variant == 'None'):
                    return 'duplicated member %s.%s is also written inside %s' % (inner_name, d, inner_name)
            if kind == 'credential':
                cs = inner.fields[IF.index('credential_subject')]
                if not (isinstance(cs, VAgg) and isinstance(cs.fields[0], VAgg) and cs.fields[0].variant == 'None'):
                    return 'credentialSubject.id is also written inside vc'
            wmaps.append((p, write_locations(p.term(c), src_leaf)))
            return None
        A.require('%s-claims/new-omits-duplicated-members-from-%s' % (kind, inner_name), okn, r_new, replay=R('[roundtrip]'))

        # optional members keep their presence: with the source member forced to Some(_) the claims location it is written to
        # holds a value on every path (a converter that turns Some(x) into None - a filter, a default elision - loses data)
        from execu import State, VOver
        import models as _models
        optf = option_fields(Tsrc)
        for nm in optf:
            if nm not in SF:
                continue
            si = SF.index(nm)
            st = State()
            base = VSym(('deref', ('leaf', src_leaf)), Tsrc)
            some = _models.mk('Option', 'Some', VSym(('field', ('field', base.term, si, ''), 0, 'Some'), ''))
            st.mem['sym:' + src_leaf] = VOver(base, {(None, si): some})
            args0 = sym_args(f_new)
            try:
                ps, exo = A.paths(f_new, inline=r'jwt_serialization::<impl at [^>]*>::new($|::\{closure)', args=args0, state=st)
            except Refuse:
                continue
            loc = None
            for p0, m0 in wmaps:
                for k, v in m0.items():
                    if k and k[0] == si:
                        loc = v
            if loc is None:
                continue

            def r_keep(p, loc=loc, nm=nm):
                if p.kind != 'return' or not p.is_ok():
                    return None
                at = dict((pa, t) for pa, t in agg_walk(p.term(p.payload())))
                t = at.get(loc)
                if isinstance(t, tuple) and t and t[0] == 'agg' and str(t[2]) == 'None':
                    return 'member %s is present in the source but written as absent' % nm
                return None
            A.require('%s-claims/optional-member-%s-keeps-its-presence' % (kind, nm), ps, r_keep, replay=R('[roundtrip]'))

        if kind == 'presentation':
            # the members taken from the options (exp, nbf/iat, aud, custom claims) are present exactly when the option is: no default
            # is filled in for an absent one and none is dropped
            OF = S['JwtPresentationOptions']
            pairs = (('exp', 'expiration_date'), ('issuance_date', 'issuance_date'), ('aud', 'audience'), ('custom', 'custom_claims'))

            def r_opts(p, CF=CF, OF=OF, pairs=pairs):
                c = p.payload()
                if not (isinstance(c, VAgg) and len(c.fields) == len(CF)):
                    return 'claims not built field-wise'
                for cf, of in pairs:
                    v = c.fields[CF.index(cf)]
                    opt = ('field', ('deref', ('leaf', 'options')), OF.index(of), '')
                    if isinstance(v, VAgg) and str(v.variant) == 'Some':
                        if not p.took(opt, 'Some') or not (is_sub_of(p.term(v), opt) or ('options.%d.Some' % OF.index(of)) in term_str(p.term(v))):
                            return 'claim %s is written although options.%s is absent (or not from it)' % (cf, of)
                    elif isinstance(v, VAgg) and str(v.variant) == 'None':
                        if not p.took(opt, 'None'):
                            return 'claim %s is left out although options.%s is present' % (cf, of)
                    else:
                        t = strip(p.term(v))
                        while isinstance(t, tuple) and t and t[0] == 'app' and re.search(r'Option<.*>::(map|cloned|as_ref)$|Clone>::clone$', t[1]):
                            t = strip(t[2][0])
                        if t != opt and t != ('deref', opt) and strip(t) != strip(opt):
                            return 'claim %s is not options.%s carried over as it is' % (cf, of)
                return None
            A.require('presentation-claims/option-members-present-exactly-when-the-option-is', okn, r_opts,
                      replay={'scenario': 'presentation_validation', 'cex': {'only': '[options]'}})

        f_into = prog.one(into_rx)
        ipaths, ex2 = A.paths(f_into)
        oki = [p for p in ipaths if p.kind == 'return' and p.is_ok()]
        if not oki:
            raise Refuse('%s reconstruction has no Ok path' % kind)

        def r_into(p):
            cc = [c for c in p.find_calls(r'::check_consistency$') if p.took(c, 'Ok') and strip(c.args[0]) == ('leaf', 'self')]
            return None if cc else 'reconstructed without check_consistency succeeding'
        A.require('%s-claims/try_into-runs-the-consistency-check' % kind, oki, r_into, replay=R('[consistency]'))

        # wiring: union of write locations over the paths of `new` (optional members differ per path)
        W = {}
        for p, m in wmaps:
            for k, v in m.items():
                W.setdefault(k, set()).add(v)
        ctx.samples.append('%s: write locations %s' % (kind, {'.'.join(map(str, k)): sorted(v) for k, v in sorted(W.items())}))

        def r_wire(p, SF=SF, W=W, src_leaf=src_leaf, kind=kind):
            out = p.payload()
            if not (isinstance(out, VAgg) and len(out.fields) == len(SF)):
                return '%s not rebuilt field-wise' % kind
            for i, nm in enumerate(SF):
                parts = [((i,), out.fields[i])]
                if kind == 'credential' and nm == 'credential_subject':
                    one = out.fields[i]
                    if not (isinstance(one, VAgg) and str(one.variant) == 'One' and isinstance(one.fields[0], VAgg)):
                        return 'credential subject not rebuilt as a single subject'
                    sub = one.fields[0]
                    parts = [((i, 0, 0), sub.fields[0]), ((i, 0, 1), sub.fields[1])]
                for src, val in parts:
                    t = p.term(val)
                    if isinstance(val, VAgg) and val.variant == 'None':
                        continue   # optional member absent on this path
                    r = proj_of(t, 'self')
                    if r is None and isinstance(val, VAgg) and str(val.variant) not in ('Some', 'None'):
                        return 'field %s is re-shaped on the way back (rebuilt as %s{..} from parts of the stored value): not the stored value' % (nm, val.variant)
                    if r is None:
                        # Option<..> rebuilt with map(..): look inside
                        inner_projs = [proj_of(s, 'self') for s in subterms(t) if isinstance(s, tuple) and s and s[0] in ('field', 'app')]
                        inner_projs = [x for x in inner_projs if x]
                        r = min(inner_projs, key=len) if inner_projs else None
                    if r is None:
                        return 'field %s of the rebuilt %s does not come from the claims' % (nm, kind)
                    cands = [k for k in W if k[:len(src)] == src or src[:len(k)] == k]
                    if not cands:
                        if kind == 'presentation':
                            continue
                        return 'field %s is never written into the claims' % nm
                    okw = False
                    for k in cands:
                        for w in W[k]:
                            if list(w[:len(r)]) == r or r[:len(w)] == list(w):
                                okw = True
                    if not okw:
                        return 'field %s is written to claims location %s but read back from %s' % (nm, sorted(W[cands[0]]), r)
            return None
        A.require('%s-claims/every-field-read-back-from-where-it-was-written' % kind, oki, r_wire, replay=R('[roundtrip]'))

    credential_consistency(A, prog, R('[consistency]'))
    presentation_consistency(A, prog, {'scenario': 'presentation_validation', 'cex': {'only': '[consistency]'}})

    # ---- numeric dates ----------------------------------------------------------------------------------------------------------
    f = prog.one(r'jwt_serialization::<impl at [^>]*>::to_issuance_date$')
    paths, ex = A.paths(f, inline=r'to_issuance_date::\{closure')
    ID = S['IssuanceDateClaims']

    def r_tid(p):
        if p.kind != 'return':
            return 'panic ' + p.msg
        nbf = ('field', ('leaf', 'self'), ID.index('nbf'), '')
        iat = ('field', ('leaf', 'self'), ID.index('iat'), '')
        fu = [c for c in p.find_calls(r'Timestamp::from_unix$')]
        if p.is_ok():
            src = nbf if p.took(nbf, 'Some') else (iat if p.took(iat, 'Some') else None)
            if src is None:
                return 'issuance date produced without nbf or iat'
            want = ex.sym_int(('field', src, 0, 'Some'), 64, True).e
            good = [c for c in fu if p.took(c, 'Ok') and ((isinstance(c.argvals[0], VInt) and z3.eq(z3.simplify(c.argvals[0].e), z3.simplify(want)))
                                                        or strip(c.args[0]) == ('field', src, 0, 'Some'))]
            if not good or strip(p.term(p.payload())) != ('field', good[0].ret, 0, 'Ok'):
                return 'issuance date is not from_unix(%s) (nbf takes precedence over iat)' % ('nbf' if src is nbf else 'iat')
            return None
        # Err: nothing present, or the range gate refused
        if p.took(nbf, 'None') and p.took(iat, 'None'):
            return None
        return None if any(p.took(c, 'Err') for c in fu) else 'valid numeric date rejected'
    A.require('numeric-dates/nbf-else-iat-through-the-0000-9999-gate', paths, r_tid, replay=[R('[dates]'), {'scenario': 'credential_validation', 'cex': {'only': '[dates]'}}])


def credential_consistency(A, prog, replay):
    """CredentialJwtClaims::check_consistency: every member repeated inside vc agrees with its registered claim (shared with C02)"""
    S = prog.structs
    CF, IF = S['CredentialJwtClaims'], S['InnerCredential']
    vc = CF.index('vc')
    f = prog.one(r'credential::jwt_serialization::<impl at [^>]*>::check_consistency$')
    paths, ex = A.paths(f, inline=r'credential::jwt_serialization::<impl at [^>]*>::check_consistency::\{closure')
    okp = [p for p in paths if p.kind == 'return' and p.is_ok()]
    SELF = ('deref', ('leaf', 'self'))

    def eq_true(p, pa, pb):
        for c in p.find_calls(r'PartialEq.*>::(eq|ne)$'):
            a, b = c.args
            if (pa(a) and pb(b)) or (pa(b) and pb(a)):
                if p.took(c.ret, 'true' if c.name.endswith('::eq') else 'false'):
                    return True
        return False

    def self_field(t, idxs):
        for s in subterms(t):
            fp = field_path(s) if isinstance(s, tuple) and s and s[0] in ('field', 'ref', 'deref') else None
            if fp and fp[0] == 'self' and [i for _, i in fp[1]][:len(idxs)] == list(idxs):
                return True
        return False

    def r_cc(p):
        def present(*idx):
            t = SELF
            for i in idx:
                t = ('field', t, i, '')
            return p.took(t, 'Some'), p.took(t, 'None')
        # issuer
        s, n = present(vc, IF.index('issuer'))
        if not n and not (s and eq_true(p, lambda t: self_field(t, [vc, IF.index('issuer')]), lambda t: self_field(t, [CF.index('iss')]))):
            return 'vc.issuer not compared equal with iss'
        # issuance date
        tid = [c for c in p.find_calls(r'to_issuance_date$') if p.took(c, 'Ok')]
        if not tid:
            return 'nbf/iat not converted (out-of-range dates must be rejected)'
        s, n = present(vc, IF.index('issuance_date'))
        if not n and not (s and eq_true(p, lambda t: self_field(t, [vc, IF.index('issuance_date')]) or 'issuance_date' in term_str(t),
                                          lambda t: is_sub(t, ('field', tid[0].ret, 0, 'Ok')))):
            return 'vc.issuanceDate not compared equal with nbf/iat'
        # expiration
        s, n = present(vc, IF.index('expiration_date'))
        if not n:
            es, en = present(CF.index('exp'))
            tu = [c for c in p.find_calls(r'Timestamp::to_unix$')]
            if not (s and es and tu):
                return 'vc.expirationDate present but exp absent / not compared'
            want = ex.sym_int(('field', ('field', SELF, CF.index('exp'), ''), 0, 'Some'), 64, True).e
            have = ex.sym_int(tu[0].ret, 64, True).e
            if not p.implies(want == have):
                return 'vc.expirationDate not equal to exp'
        # id
        s, n = present(vc, IF.index('id'))
        if not n:
            js, jn = present(CF.index('jti'))
            if not (s and js and eq_true(p, lambda t: self_field(t, [CF.index('jti')]), lambda t: self_field(t, [vc, IF.index('id')]))):
                return 'vc.id present but jti absent / different'
        # subject id
        csi = IF.index('credential_subject')
        s, n = present(vc, csi, 0)
        if not n:
            ss, sn = present(CF.index('sub'))
            if not (s and ss and eq_true(p, lambda t: self_field(t, [CF.index('sub')]), lambda t: self_field(t, [vc, csi, 0]))):
                return 'vc.credentialSubject.id present but sub absent / different'
        return None
    A.require('credential-claims/check_consistency-every-duplicated-member-agrees', okp, r_cc, replay=replay)
    A.no_panic('credential-claims/check_consistency-no-panic', paths, replay=replay)


def presentation_consistency(A, prog, replay):
    """PresentationJwtClaims::check_consistency: vp.id / vp.holder, when present, are compared equal with jti / iss (shared with C03)"""
    S = prog.structs
    SELF = ('deref', ('leaf', 'self'))

    def self_field(t, idxs):
        for s in subterms(t):
            fp = field_path(s) if isinstance(s, tuple) and s and s[0] in ('field', 'ref', 'deref') else None
            if fp and fp[0] == 'self' and [i for _, i in fp[1]][:len(idxs)] == list(idxs):
                return True
        return False

    def eq_true(p, pa, pb):
        for c in p.find_calls(r'PartialEq.*>::(eq|ne)$'):
            a, b = c.args
            if (pa(a) and pb(b)) or (pa(b) and pb(a)):
                if p.took(c.ret, 'true' if c.name.endswith('::eq') else 'false'):
                    return True
        return False
    PF, PI = S['PresentationJwtClaims'], S['InnerPresentation']
    vp = PF.index('vp')
    f = prog.one(r'presentation::jwt_serialization::<impl at [^>]*>::check_consistency$')
    paths, ex = A.paths(f, inline=r'presentation::jwt_serialization::<impl at [^>]*>::check_consistency::\{closure')
    okp = [p for p in paths if p.kind == 'return' and p.is_ok()]

    def r_pc(p):
        def present(*idx):
            t = SELF
            for i in idx:
                t = ('field', t, i, '')
            return p.took(t, 'Some'), p.took(t, 'None')
        s, n = present(vp, PI.index('id'))
        if not n:
            js, jn = present(PF.index('jti'))
            if not (s and js and eq_true(p, lambda t: self_field(t, [PF.index('jti')]), lambda t: self_field(t, [vp, PI.index('id')]))):
                return 'vp.id present but jti absent / different'
        s, n = present(vp, PI.index('holder'))
        if not n and not (s and eq_true(p, lambda t: self_field(t, [PF.index('iss')]), lambda t: self_field(t, [vp, PI.index('holder')]))):
            return 'vp.holder not compared equal with iss'
        return None
    A.require('presentation-claims/check_consistency-id-and-holder-agree', okp, r_pc, replay=replay)


def claims_serde_shape(ctx, prog, kind):
    """The JWT claims types are read member by member by serde's derived routines: a custom per-field deserialiser
    (`deserialize_with` / `with`) shows up in the MIR as a helper `…::visit_map::<impl>::deserialize` nested in the derive of a type
    declared in the claims file; none may exist (a lenient reader changes which tokens are accepted and what is handed back)."""
    from replay import run_replay
    fname = '%s/jwt_serialization.rs' % kind
    name = '%s-claims/members-read-by-the-derived-deserialiser' % kind
    helpers = [g.name for g in prog.funcs if re.search(r'jwt_serialization\.rs[^>]*>::deserialize::.*visit_(map|seq)::<impl at [^>]*>::deserialize$', g.name)
               and (kind + '/jwt_serialization.rs') in g.name]
    derives = [g.name for g in prog.funcs if re.search(r'<impl at [^>]*%s[^>]*>::deserialize$' % re.escape(fname), g.name)]
    if not derives:
        ctx.add(Ob(name, 'M', INCONCLUSIVE, detail='no derived Deserialize found for the types of %s' % fname))
        return
    if not helpers:
        ctx.add(Ob(name, 'M', HELD, queries=len(derives), sample='%d derived Deserialize impls in %s, no per-field deserialiser helper' % (len(derives), fname)))
        return
    rep = {'scenario': 'presentation_validation' if kind == 'presentation' else 'claims'}
    res = run_replay(rep)
    ctx.add(Ob(name, 'M', VIOLATED if res.get('reproduced') else INCONCLUSIVE,
               detail='custom per-field deserialiser in the claims type (%s); native: %s' % (helpers[0][-120:], res.get('detail', '')[:300]), replay=rep))


def derived_equality(ctx, prog):
    """Equality of the credential / presentation data types is the compiler-derived structural one: the consistency check
    (`vc.issuer == iss`, ...) and the round-trip oracle (`decoded == original`) both rest on it (see derives.py)."""
    import derives
    derives.derived_impls(ctx, prog, 'equality/credential-and-presentation-types-compare-structurally',
                          r'identity_credential/src/(?:credential|presentation)/[^:>]+\.rs', ['issuer.rs', 'credential.rs', 'presentation.rs', 'subject.rs'],
                          {'scenario': 'claims', 'cex': {'only': '[consistency]'}})

def url_equality(ctx):
    """identity_core's Url compares as its whole text with the other side's whole text (its one hand-written PartialEq<T: AsRef<str>>):
    the identifier comparisons of both consistency checks (`vc.id == jti`, `vp.holder == iss`, ...) are this comparison"""
    prog, info = load(['identity_core'])
    A = Auditor(ctx, prog)
    f = prog.one(r'^url::<impl at [^>]*>::eq$')
    paths, ex = A.paths(f)

    def r_eq(p):
        if p.kind != 'return':
            return 'panic ' + p.msg
        sides = [c for c in p.calls if re.search(r'Url::as_str$|AsRef<str>>::as_ref$', c.name)]
        cmp_ = [c for c in p.calls if re.search(r'PartialEq.*>::eq$', c.name)]
        extra = [c for c in p.calls if c not in sides + cmp_ and not c.inlined and not re.search(r'Deref>::deref$', c.name)]
        if extra:
            return 'the texts are reshaped before they are compared (%s)' % extra[0].name.split('::')[-1]
        if len(cmp_) != 1 or len(sides) != 2:
            return 'not one comparison of the two whole texts'
        a, b = strip(cmp_[0].args[0]), strip(cmp_[0].args[1])
        got = {term_str(a), term_str(b)}
        want = {term_str(strip(sides[0].ret)), term_str(strip(sides[1].ret))}
        if got != want or not (mentions(sides[0].args, r'^self$') or mentions(sides[1].args, r'^self$')) or not (mentions(sides[0].args, r'^other$') or mentions(sides[1].args, r'^other$')):
            return 'the comparison is not between self.as_str() and other.as_ref()'
        return None if isinstance(p.val, VBool) and p.implies(p.val.e == ex.sym_bool(cmp_[0].ret).e) else 'result is not that comparison'
    A.require('Url::eq/whole-text-against-whole-text', paths, r_eq, replay=[R('[consistency]'), {'scenario': 'presentation_validation', 'cex': {'only': '[consistency]'}}])


def main(ctx):
    prog, info = load(CRATES, src_only=SRC)
    ctx.extra['mir'] = info
    ctx.outside += ['the JSON text form (serde rename / flatten / skip_serializing_if; that no member has a custom deserialiser is audited)', 'multi-subject credentials beyond their rejection',
                    'Timestamp::to_unix/from_unix being inverse on the range (C13)', 'Cow::into_owned / Borrowed being value-preserving']
    guarded(ctx, 'claims conversion wiring and consistency', 'M', lambda: run(ctx, prog))
    guarded(ctx, 'structural equality', 'M', lambda: derived_equality(ctx, prog))
    guarded(ctx, 'Url equality', 'M', lambda: url_equality(ctx))
    for kind in ('credential', 'presentation'):
        guarded(ctx, '%s claims serde shape' % kind, 'M', lambda kind=kind: claims_serde_shape(ctx, prog, kind))
    # presentations: expiry, issuance (nbf before iat) and audience are converted inside the presentation validator, not in
    # try_into_presentation - C03's obligation on that function is re-used
    import c03

    def presentation_dates():
        prog2, info2 = load(c03.CRATES, src_only=c03.SRC)
        c03.run(ctx, prog2, only=r'^validate/')
    guarded(ctx, 'presentation dates and audience (validator)', 'M', presentation_dates)
